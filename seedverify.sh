#!/bin/bash
# Verifies sub-agent mutants independently in a scratch worktree: patch applies, suite passes with the
# patch (default features; all features if async code is touched), demo fails with / passes without.
# usage: seedverify.sh <ID> <N>     writes /tmp/seedverify/<ID>-<N>.json
ID="$1"; N="$2"
OUT=/tmp/seed/$ID/${SEED_OUT:-out}
WT=${SEED_WT:-/tmp/seedverify/wt}
RES=/tmp/seedverify/$ID-${SEED_OUT:-out}-$N.json
mkdir -p /tmp/seedverify
if [ ! -d "$WT" ]; then git -C /repo worktree add -q --detach "$WT" HEAD || exit 2; fi
cd "$WT" && git checkout -q --detach "$(git -C /repo rev-parse HEAD)" && git checkout -- . && rm -rf tests
applies=false; suite=false; suite_all=na; demo_fails=false; demo_passes=false
if git apply --check "$OUT/patch$N.diff" 2>/dev/null; then applies=true; fi
if $applies; then
  git apply "$OUT/patch$N.diff"
  if cargo test --workspace --no-fail-fast --offline -j 8 2>&1 | grep -q "^test result: ok. 397 passed"; then suite=true; fi
  if grep -q "async_vfs" "$OUT/patch$N.diff"; then
     if cargo test --workspace --no-fail-fast --offline -j 8 --all-features 2>&1 | grep -q "^test result: ok. 817 passed"; then suite_all=true; else suite_all=false; fi
  fi
  mkdir -p tests; cp "$OUT/demo$N.rs" tests/demo$N.rs
  if cargo test --offline -j 8 --all-features --test demo$N >/tmp/seedverify/$ID-$N.with.log 2>&1; then demo_fails=false; else demo_fails=true; fi
  git checkout -- . 
  if cargo test --offline -j 8 --all-features --test demo$N >/tmp/seedverify/$ID-$N.without.log 2>&1; then demo_passes=true; fi
  rm -rf tests
fi
echo "{\"id\":\"$ID\",\"n\":$N,\"applies\":$applies,\"suite_passes_with_patch\":$suite,\"suite_all_features\":\"$suite_all\",\"demo_fails_with_patch\":$demo_fails,\"demo_passes_without_patch\":$demo_passes}" > "$RES"
cat "$RES"
