#!/bin/bash
# usage: seedtest.sh <patch.diff> <tier> <prop> [<prop>...]   -- applies a seeded change to /repo, runs checks, reverts
PATCH="$(readlink -f "$1")"; TIER="$2"; shift 2
mkdir -p /tmp/seedtest-verif/evidence /tmp/seedtest-verif/replays
for L in fixture_embed fixture_embed2 known_findings.json regress; do [ -e /tmp/seedtest-verif/$L ] || ln -s /verif/$L /tmp/seedtest-verif/$L; done
cd /repo || exit 2
if ! git diff --quiet; then echo "repo dirty, refusing"; exit 2; fi
git apply "$PATCH" || { echo "patch does not apply"; exit 2; }
trap 'git -C /repo checkout -- . ' EXIT
for P in "$@"; do
  OUT=$(cd /verif && VERIF_DIR=/tmp/seedtest-verif ./run "$P" "$TIER" 2>&1)
  CODE=$?
  echo "== $P exit=$CODE :: $(echo "$OUT" | grep -E '^(VIOLATION|OK|INFRA)' | head -2 | tr '\n' ' ')"
  if [ "$CODE" = "1" ]; then echo "$OUT" | grep -v "^KNOWN" | head -${SEEDTEST_LINES:-14}; fi
done
