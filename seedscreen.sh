#!/bin/bash
# Parallel *screening* of seeded changes (not evidence): slot N has its own worktree of /repo and its own
# copy of the harness whose vfs dependency points at that worktree, so several changes can be tried at once
# without touching /repo. Results that matter are re-run through seedtest.sh against /repo itself.
# usage: seedscreen.sh <slot> <patch.diff> <tier> <prop> [<prop>...]
SLOT="$1"; PATCH="$(readlink -f "$2")"; TIER="$3"; shift 3
S=/tmp/screen/$SLOT
if [ ! -d "$S/wt" ]; then
  mkdir -p "$S" && git -C /repo worktree add -q --detach "$S/wt" HEAD || exit 2
fi
mkdir -p "$S/evidence" "$S/replays" "$S/harness"
for L in fixture_embed fixture_embed2 known_findings.json regress; do [ -e "$S/$L" ] || ln -s /verif/$L "$S/$L"; done
rsync -a --delete --exclude target --exclude fuzz /verif/harness/ "$S/harness/"
sed -i "s#path = \"/repo\"#path = \"$S/wt\"#" "$S/harness/Cargo.toml"
if [ ! -d "$S/harness/target" ]; then mkdir -p "$S/harness/target/release"; cp -r /verif/harness/target/release/{deps,build,.fingerprint} "$S/harness/target/release/" 2>/dev/null; fi
cd "$S/wt" && git checkout -q --detach "$(git -C /repo rev-parse HEAD)" && git checkout -- . || exit 2
git apply "$PATCH" || { echo "patch does not apply"; exit 2; }
if ! (cd "$S/harness" && CARGO_NET_OFFLINE=true cargo build --release --offline -j ${SCREEN_J:-4} >"$S/build.log" 2>&1); then echo "INFRA build failed"; grep -E "^error" -A8 "$S/build.log" | head -30; git checkout -- .; exit 2; fi
for P in "$@"; do
  OUT=$(cd "$S" && VERIF_DIR="$S" VERIF_SKIP_REGRESS=1 "$S/harness/target/release/check" "$P" "$TIER" 2>&1)
  CODE=$?
  echo "== $P exit=$CODE :: $(echo "$OUT" | grep -E '^(VIOLATION|OK|INFRA)' | head -2 | tr '\n' ' ')"
  if [ "$CODE" = "1" ]; then echo "$OUT" | grep -v "^KNOWN" | head -${SEEDTEST_LINES:-6}; fi
done
cd "$S/wt" && git checkout -- .
