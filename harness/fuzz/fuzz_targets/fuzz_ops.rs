#![no_main]
use libfuzzer_sys::fuzz_target;
fuzz_target!(|data: &[u8]| {
    if let Err(m) = vv::fuzzdec::ops_case(data) {
        panic!("C01 VIOLATION: {}", m);
    }
});
