#![no_main]
use libfuzzer_sys::fuzz_target;
fuzz_target!(|data: &[u8]| {
    if let Err(m) = vv::fuzzdec::handles_case(data) {
        panic!("C14 VIOLATION: {}", m);
    }
});
