//! Sharded proptest driver, statistics / evidence, replay files, violation reporting.

use proptest::strategy::Strategy;
use proptest::test_runner::{Config, RngSeed, TestCaseError, TestError, TestRunner};
use serde_json::{json, Value};
use std::cell::{Cell, RefCell};
use std::collections::{BTreeMap, HashSet};
use std::time::Instant;

#[derive(Clone, Copy, Debug, PartialEq, Eq)]
pub enum Tier {
    Quick,
    Thorough,
}

impl Tier {
    pub fn name(&self) -> &'static str {
        match self {
            Tier::Quick => "quick",
            Tier::Thorough => "thorough",
        }
    }
    pub fn pick<T>(&self, quick: T, thorough: T) -> T {
        match self {
            Tier::Quick => quick,
            Tier::Thorough => thorough,
        }
    }
}

#[derive(Clone, Debug)]
pub struct RunCtx {
    pub id: String,
    pub tier: Tier,
    pub seed: u64,
    pub shards: usize,
    pub start: Instant,
    /// proptest shrink iterations (lower for checks whose single case is expensive)
    pub shrink_iters: u32,
}

#[derive(Default, Clone, Debug)]
pub struct Stats {
    pub evaluations: u64,
    pub nontrivial: HashSet<u64>,
    pub labels: BTreeMap<String, u64>,
    pub samples: Vec<Value>,
    pub sample_nontrivial: Vec<Value>,
    pub excluded: BTreeMap<String, u64>,
}

impl Stats {
    pub fn label(&mut self, l: &str) {
        *self.labels.entry(l.to_string()).or_insert(0) += 1;
    }
    pub fn label_n(&mut self, l: &str, n: u64) {
        *self.labels.entry(l.to_string()).or_insert(0) += n;
    }
    pub fn exclude(&mut self, trigger: &str) {
        *self.excluded.entry(trigger.to_string()).or_insert(0) += 1;
    }
    pub fn sample(&mut self, v: Value, nontrivial: bool) {
        if nontrivial {
            if self.sample_nontrivial.len() < 3 {
                self.sample_nontrivial.push(v);
            }
        } else if self.samples.len() < 2 {
            self.samples.push(v);
        }
    }
    pub fn merge(&mut self, o: Stats) {
        self.evaluations += o.evaluations;
        self.nontrivial.extend(o.nontrivial);
        for (k, v) in o.labels {
            *self.labels.entry(k).or_insert(0) += v;
        }
        for (k, v) in o.excluded {
            *self.excluded.entry(k).or_insert(0) += v;
        }
        for s in o.samples {
            if self.samples.len() < 2 {
                self.samples.push(s);
            }
        }
        for s in o.sample_nontrivial {
            if self.sample_nontrivial.len() < 4 {
                self.sample_nontrivial.push(s);
            }
        }
    }
    pub fn get(&self, l: &str) -> u64 {
        self.labels.get(l).copied().unwrap_or(0)
    }
}

#[derive(Clone, Debug)]
pub struct Failure {
    pub message: String,
    /// everything needed to re-execute the case, plus a human-readable rendering
    pub replay: Value,
}

pub type CaseResult = Result<(), Failure>;

/// Run `cases` generated cases split over `shards` threads. Deterministic: every shard has its
/// own fixed seed and results are merged in shard order; the first failing shard (by index) wins.
pub fn run_sharded<S, F>(
    ctx: &RunCtx,
    sub: &str,
    cases: u32,
    strategy: impl Fn() -> S + Sync,
    test: F,
) -> (Stats, Option<Failure>)
where
    S: Strategy,
    S::Value: Clone,
    F: Fn(&S::Value, &mut Stats, bool) -> CaseResult + Sync,
{
    let shards = ctx.shards.max(1).min(cases.max(1) as usize);
    let per = (cases as usize + shards - 1) / shards;
    let results: Vec<(Stats, Option<Failure>)> = std::thread::scope(|scope| {
        let mut handles = vec![];
        for shard in 0..shards {
            let strategy = &strategy;
            let test = &test;
            let id = ctx.id.clone();
            let seed = ctx.seed;
            let ctx_shrink = ctx.shrink_iters;
            let sub = sub.to_string();
            handles.push(scope.spawn(move || {
                crate::util::install_panic_hook();
                let shard_seed = crate::util::mix(
                    crate::util::mix(seed, crate::util::fnv_str(&format!("{}/{}", id, sub))),
                    shard as u64,
                );
                let config = Config {
                    cases: per as u32,
                    failure_persistence: None,
                    rng_seed: RngSeed::Fixed(shard_seed),
                    max_shrink_iters: ctx_shrink,
                    max_global_rejects: 1_000_000,
                    ..Config::default()
                };
                let mut runner = TestRunner::new(config);
                let stats = RefCell::new(Stats::default());
                let failed = Cell::new(false);
                let strat = strategy();
                let result = runner.run(&strat, |v| {
                    let counting = !failed.get();
                    let mut scratch_stats = Stats::default();
                    let r = if counting {
                        let mut st = stats.borrow_mut();
                        st.evaluations += 1;
                        test(&v, &mut st, true)
                    } else {
                        test(&v, &mut scratch_stats, false)
                    };
                    match r {
                        Ok(()) => Ok(()),
                        Err(f) => {
                            failed.set(true);
                            Err(TestCaseError::fail(f.message))
                        }
                    }
                });
                let failure = match result {
                    Ok(()) => None,
                    Err(TestError::Fail(reason, minimal)) => {
                        // re-run the minimal case once to obtain its replay record
                        let mut s = Stats::default();
                        match test(&minimal, &mut s, false) {
                            Err(f) => Some(f),
                            Ok(()) => Some(Failure {
                                message: format!("{} (minimal case did not reproduce on re-run: flaky?)", reason),
                                replay: json!({"note": "non-reproducible", "reason": reason.to_string()}),
                            }),
                        }
                    }
                    Err(TestError::Abort(reason)) => Some(Failure {
                        message: format!("ABORT: {}", reason),
                        replay: json!({"abort": reason.to_string()}),
                    }),
                };
                (stats.into_inner(), failure)
            }));
        }
        handles.into_iter().map(|h| h.join().expect("shard thread")).collect()
    });
    let mut total = Stats::default();
    let mut first_failure = None;
    for (s, f) in results {
        total.merge(s);
        if first_failure.is_none() {
            first_failure = f;
        }
    }
    (total, first_failure)
}

pub fn verif_dir() -> std::path::PathBuf {
    std::env::var("VERIF_DIR").map(std::path::PathBuf::from).unwrap_or_else(|_| "/verif".into())
}

/// Write the evidence file for this run.
pub fn write_evidence(
    ctx: &RunCtx,
    level: &str,
    rule: &str,
    stats: &Stats,
    extra: Value,
    assumptions: &[&str],
    violations: u32,
) {
    let mut samples: Vec<Value> = stats.sample_nontrivial.clone();
    samples.extend(stats.samples.iter().cloned());
    let mut coverage = json!({
        "evaluations": stats.evaluations,
        "distinct_nontrivial": stats.nontrivial.len(),
        "rule": rule,
        "samples": samples,
        "labels": stats.labels,
        "excluded_by_known_finding": stats.excluded,
    });
    if let (Some(c), Some(e)) = (coverage.as_object_mut(), extra.as_object()) {
        for (k, v) in e {
            c.insert(k.clone(), v.clone());
        }
    }
    let ev = json!({
        "property_id": ctx.id,
        "tier": ctx.tier.name(),
        "seed": ctx.seed,
        "level": level,
        "coverage": coverage,
        "assumptions": assumptions,
        "wall_s": (ctx.start.elapsed().as_millis() as f64) / 1000.0,
        "violations": violations,
    });
    let dir = verif_dir().join("evidence");
    let _ = std::fs::create_dir_all(&dir);
    let path = dir.join(format!("{}.json", ctx.id));
    std::fs::write(&path, serde_json::to_string_pretty(&ev).unwrap()).expect("evidence file must be writable");
}

/// Persist a replay file and print the VIOLATION line. Returns the path.
pub fn report_violation(id: &str, f: &Failure) -> String {
    let dir = verif_dir().join("replays");
    let _ = std::fs::create_dir_all(&dir);
    let mut rec = f.replay.clone();
    if let Some(o) = rec.as_object_mut() {
        o.insert("property".into(), json!(id));
        o.insert("message".into(), json!(f.message));
    }
    let text = serde_json::to_string_pretty(&rec).unwrap();
    let h = crate::util::fnv(text.as_bytes());
    let path = dir.join(format!("{}-{:016x}.json", id, h));
    std::fs::write(&path, text).expect("replay file must be writable");
    println!("--- violation of {} ---\n{}", id, f.message);
    println!("VIOLATION property={} replay={}", id, path.display());
    path.display().to_string()
}

/// Final verdict helper shared by all checks: prints a summary line and returns the exit code.
pub fn finish(ctx: &RunCtx, stats: &Stats, failure: &Option<Failure>, floors: &[(&str, u64)]) -> i32 {
    if let Some(f) = failure {
        if f.message.starts_with("ABORT") {
            println!("INFRA property={} {}", ctx.id, f.message);
            return 2;
        }
        report_violation(&ctx.id, f);
        return 1;
    }
    for (label, floor) in floors {
        let got = if *label == "distinct_nontrivial" { stats.nontrivial.len() as u64 } else { stats.get(label) };
        if got < *floor {
            println!(
                "INFRA property={} generator degenerate: label '{}' = {} below floor {}",
                ctx.id, label, got, floor
            );
            return 2;
        }
    }
    println!(
        "OK property={} tier={} seed={} evaluations={} distinct_nontrivial={} wall_s={:.1}",
        ctx.id,
        ctx.tier.name(),
        ctx.seed,
        stats.evaluations,
        stats.nontrivial.len(),
        ctx.start.elapsed().as_secs_f64()
    );
    0
}
