//! The abstract file tree and the sequential specification of every path operation.
//!
//! This is the reference model used as oracle by C01/C09/C10/C11/C16 and as *steering* (never as
//! oracle) by the differential checks.

use std::collections::{BTreeMap, BTreeSet};
use std::sync::Arc;

pub type Bytes = Arc<Vec<u8>>;

#[derive(Clone, PartialEq, Eq, Debug)]
pub enum Node {
    Dir,
    File(Bytes),
}

impl Node {
    pub fn is_dir(&self) -> bool {
        matches!(self, Node::Dir)
    }
    pub fn is_file(&self) -> bool {
        matches!(self, Node::File(_))
    }
}

/// Canonical paths: "" is the root, otherwise "/a/b".
#[derive(Clone, PartialEq, Eq, Debug)]
pub struct Tree {
    pub m: BTreeMap<String, Node>,
}

impl Default for Tree {
    fn default() -> Self {
        Tree::new()
    }
}

pub fn parent_of(p: &str) -> String {
    match p.rfind('/') {
        Some(i) => p[..i].to_string(),
        None => String::new(),
    }
}

pub fn name_of(p: &str) -> &str {
    match p.rfind('/') {
        Some(i) => &p[i + 1..],
        None => p,
    }
}

pub fn depth_of(p: &str) -> usize {
    p.matches('/').count()
}

/// true if `p` is `anc` or below it
pub fn is_within(p: &str, anc: &str) -> bool {
    p == anc || (p.starts_with(anc) && p.as_bytes().get(anc.len()) == Some(&b'/'))
}

pub fn ancestors_of(p: &str) -> Vec<String> {
    // proper ancestors, root first
    let mut v = vec![String::new()];
    let mut pos = 1;
    while let Some(i) = p.get(pos..).and_then(|s| s.find('/')) {
        v.push(p[..pos + i].to_string());
        pos += i + 1;
    }
    if p.is_empty() {
        v.clear();
    }
    v
}

impl Tree {
    pub fn new() -> Tree {
        let mut m = BTreeMap::new();
        m.insert(String::new(), Node::Dir);
        Tree { m }
    }
    pub fn get(&self, p: &str) -> Option<&Node> {
        self.m.get(p)
    }
    pub fn exists(&self, p: &str) -> bool {
        self.m.contains_key(p)
    }
    pub fn is_dir(&self, p: &str) -> bool {
        matches!(self.m.get(p), Some(Node::Dir))
    }
    pub fn is_file(&self, p: &str) -> bool {
        matches!(self.m.get(p), Some(Node::File(_)))
    }
    pub fn children(&self, p: &str) -> BTreeSet<String> {
        let prefix = format!("{}/", p);
        self.m
            .range(prefix.clone()..)
            .take_while(|(k, _)| k.starts_with(&prefix))
            .filter(|(k, _)| !k[prefix.len()..].contains('/'))
            .map(|(k, _)| k[prefix.len()..].to_string())
            .collect()
    }
    pub fn has_children(&self, p: &str) -> bool {
        let prefix = format!("{}/", p);
        self.m
            .range(prefix.clone()..)
            .next()
            .map(|(k, _)| k.starts_with(&prefix))
            .unwrap_or(false)
    }
    /// proper descendants, sorted (parents before children thanks to BTreeMap order on "/")
    pub fn descendants(&self, p: &str) -> Vec<String> {
        let prefix = format!("{}/", p);
        self.m
            .range(prefix.clone()..)
            .take_while(|(k, _)| k.starts_with(&prefix))
            .map(|(k, _)| k.clone())
            .collect()
    }
    pub fn remove_subtree(&mut self, p: &str) {
        for d in self.descendants(p) {
            self.m.remove(&d);
        }
        self.m.remove(p);
    }
    pub fn files(&self) -> Vec<String> {
        self.m.iter().filter(|(_, n)| n.is_file()).map(|(k, _)| k.clone()).collect()
    }
    pub fn dirs(&self) -> Vec<String> {
        self.m.iter().filter(|(_, n)| n.is_dir()).map(|(k, _)| k.clone()).collect()
    }
    /// The C03 invariant on a tree value
    pub fn well_formed(&self) -> Result<(), String> {
        if !self.is_dir("") {
            return Err("root is not a directory".into());
        }
        for k in self.m.keys() {
            if k.is_empty() {
                continue;
            }
            let par = parent_of(k);
            if !self.is_dir(&par) {
                return Err(format!("'{}' exists but parent '{}' is not a directory", k, par));
            }
        }
        Ok(())
    }
    pub fn copy_subtree_to(&mut self, src_tree: &Tree, s: &str, d: &str) {
        self.m.insert(d.to_string(), src_tree.m[s].clone());
        for desc in src_tree.descendants(s) {
            let rel = &desc[s.len()..];
            self.m.insert(format!("{}{}", d, rel), src_tree.m[&desc].clone());
        }
    }
    pub fn render(&self) -> Vec<String> {
        self.m
            .iter()
            .map(|(k, n)| match n {
                Node::Dir => format!("{}/", k),
                Node::File(b) => format!("{} = {}", k, crate::util::show_bytes(b)),
            })
            .collect()
    }
}

#[derive(Clone, Copy, Debug, PartialEq, Eq, Hash, PartialOrd, Ord)]
pub enum TimeField {
    Created,
    Modified,
    Accessed,
}

/// A resolved operation on canonical paths.
#[derive(Clone, Debug, PartialEq)]
pub enum Op {
    CreateDir(String),
    /// create_file + write_all + drop
    CreateFile(String, Bytes),
    /// append_file + write_all + drop
    Append(String, Bytes),
    RemoveFile(String),
    RemoveDir(String),
    /// open_file + read_to_end
    Read(String),
    ReadDir(String),
    Metadata(String),
    Exists(String),
    IsFile(String),
    IsDir(String),
    CreateDirAll(String),
    RemoveDirAll(String),
    ReadToString(String),
    WalkDir(String),
    CopyFile(String, String),
    MoveFile(String, String),
    CopyDir(String, String),
    MoveDir(String, String),
    SetTime(String, TimeField, i64, u32),
}

pub const OP_KINDS: [&str; 20] = [
    "create_dir",
    "create_file",
    "append_file",
    "remove_file",
    "remove_dir",
    "read",
    "read_dir",
    "metadata",
    "exists",
    "is_file",
    "is_dir",
    "create_dir_all",
    "remove_dir_all",
    "read_to_string",
    "walk_dir",
    "copy_file",
    "move_file",
    "copy_dir",
    "move_dir",
    "set_time",
];

impl Op {
    pub fn kind(&self) -> &'static str {
        OP_KINDS[self.kind_idx()]
    }
    pub fn kind_idx(&self) -> usize {
        match self {
            Op::CreateDir(_) => 0,
            Op::CreateFile(..) => 1,
            Op::Append(..) => 2,
            Op::RemoveFile(_) => 3,
            Op::RemoveDir(_) => 4,
            Op::Read(_) => 5,
            Op::ReadDir(_) => 6,
            Op::Metadata(_) => 7,
            Op::Exists(_) => 8,
            Op::IsFile(_) => 9,
            Op::IsDir(_) => 10,
            Op::CreateDirAll(_) => 11,
            Op::RemoveDirAll(_) => 12,
            Op::ReadToString(_) => 13,
            Op::WalkDir(_) => 14,
            Op::CopyFile(..) => 15,
            Op::MoveFile(..) => 16,
            Op::CopyDir(..) => 17,
            Op::MoveDir(..) => 18,
            Op::SetTime(..) => 19,
        }
    }
    pub fn target(&self) -> &str {
        match self {
            Op::CreateDir(p)
            | Op::CreateFile(p, _)
            | Op::Append(p, _)
            | Op::RemoveFile(p)
            | Op::RemoveDir(p)
            | Op::Read(p)
            | Op::ReadDir(p)
            | Op::Metadata(p)
            | Op::Exists(p)
            | Op::IsFile(p)
            | Op::IsDir(p)
            | Op::CreateDirAll(p)
            | Op::RemoveDirAll(p)
            | Op::ReadToString(p)
            | Op::WalkDir(p)
            | Op::CopyFile(p, _)
            | Op::MoveFile(p, _)
            | Op::CopyDir(p, _)
            | Op::MoveDir(p, _)
            | Op::SetTime(p, ..) => p,
        }
    }
    pub fn dest(&self) -> Option<&str> {
        match self {
            Op::CopyFile(_, d) | Op::MoveFile(_, d) | Op::CopyDir(_, d) | Op::MoveDir(_, d) => {
                Some(d)
            }
            _ => None,
        }
    }
    pub fn is_observer(&self) -> bool {
        matches!(
            self,
            Op::Read(_)
                | Op::ReadDir(_)
                | Op::Metadata(_)
                | Op::Exists(_)
                | Op::IsFile(_)
                | Op::IsDir(_)
                | Op::ReadToString(_)
                | Op::WalkDir(_)
        )
    }
    pub fn is_primitive_mutator(&self) -> bool {
        matches!(
            self,
            Op::CreateDir(_)
                | Op::CreateFile(..)
                | Op::Append(..)
                | Op::RemoveFile(_)
                | Op::RemoveDir(_)
        )
    }
    pub fn is_composite(&self) -> bool {
        matches!(
            self,
            Op::CreateDirAll(_)
                | Op::RemoveDirAll(_)
                | Op::CopyFile(..)
                | Op::MoveFile(..)
                | Op::CopyDir(..)
                | Op::MoveDir(..)
        )
    }
    pub fn render(&self) -> String {
        use crate::util::show_bytes;
        match self {
            Op::CreateFile(p, b) => format!("create_file('{}', {})", p, show_bytes(b)),
            Op::Append(p, b) => format!("append_file('{}', {})", p, show_bytes(b)),
            Op::SetTime(p, f, s, n) => format!("set_time('{}', {:?}, {}s+{}ns)", p, f, s, n),
            _ => match self.dest() {
                Some(d) => format!("{}('{}' -> '{}')", self.kind(), self.target(), d),
                None => format!("{}('{}')", self.kind(), self.target()),
            },
        }
    }
}

/// Observable result values (what the model predicts / the executor returns on success)
#[derive(Clone, Debug, PartialEq, Eq)]
pub enum Val {
    Unit,
    Bool(bool),
    Bytes(Bytes),
    /// sorted bare names; duplicates are reported separately by the executor
    Names(BTreeSet<String>),
    Meta { is_dir: bool, len: u64 },
    Str(String),
    Count(u64),
    /// walk result in yield order (full paths)
    Walk(Vec<String>),
}

/// Error classes named by the properties
#[derive(Clone, Copy, Debug, PartialEq, Eq, Hash, PartialOrd, Ord)]
pub enum ErrClass {
    NotFound,
    FileExists,
    DirExists,
    InvalidPath,
    NotSupported,
    Other,
}

#[derive(Clone, Debug, PartialEq, Eq)]
pub enum ErrReq {
    /// any error is fine
    Any,
    /// must be classified as not-found
    NotFound,
    FileExists,
    DirExists,
}

#[derive(Clone, Debug, PartialEq)]
pub enum Expect {
    Ok(Val),
    Err(ErrReq),
    /// outside the property's domain: anything goes
    Unspecified,
}

#[derive(Clone, Debug, PartialEq)]
pub enum Effect {
    Same,
    New(Tree),
    /// failed composite / excluded input: re-synchronise from observation
    Unspecified,
}

#[derive(Clone, Debug, PartialEq)]
pub struct Predicted {
    pub expect: Expect,
    pub effect: Effect,
}

fn ok(v: Val, t: Tree) -> Predicted {
    Predicted { expect: Expect::Ok(v), effect: Effect::New(t) }
}
fn ok_same(v: Val) -> Predicted {
    Predicted { expect: Expect::Ok(v), effect: Effect::Same }
}
fn err_same(r: ErrReq) -> Predicted {
    Predicted { expect: Expect::Err(r), effect: Effect::Same }
}
fn err_unspec(r: ErrReq) -> Predicted {
    Predicted { expect: Expect::Err(r), effect: Effect::Unspecified }
}
fn unspecified() -> Predicted {
    Predicted { expect: Expect::Unspecified, effect: Effect::Unspecified }
}

/// How a missing target is to be classified: not-found is demanded only when the parent is an
/// existing directory (the wording of C01/C02/C12).
fn missing(t: &Tree, p: &str) -> ErrReq {
    if t.is_dir(&parent_of(p)) {
        ErrReq::NotFound
    } else {
        ErrReq::Any
    }
}

/// Sequential specification. `t` is the state before the call.
pub fn predict(t: &Tree, op: &Op) -> Predicted {
    match op {
        Op::CreateDir(p) => {
            if p.is_empty() {
                return unspecified();
            }
            if !t.is_dir(&parent_of(p)) {
                return err_same(ErrReq::Any);
            }
            match t.get(p) {
                Some(Node::File(_)) => err_same(ErrReq::FileExists),
                Some(Node::Dir) => err_same(ErrReq::DirExists),
                None => {
                    let mut n = t.clone();
                    n.m.insert(p.clone(), Node::Dir);
                    ok(Val::Unit, n)
                }
            }
        }
        Op::CreateFile(p, b) => {
            if p.is_empty() {
                return unspecified();
            }
            if !t.is_dir(&parent_of(p)) || t.is_dir(p) {
                return err_same(ErrReq::Any);
            }
            let mut n = t.clone();
            n.m.insert(p.clone(), Node::File(b.clone()));
            ok(Val::Unit, n)
        }
        Op::Append(p, b) => {
            if p.is_empty() {
                return unspecified();
            }
            match t.get(p) {
                Some(Node::File(old)) => {
                    let mut v = old.as_ref().clone();
                    v.extend_from_slice(b);
                    let mut n = t.clone();
                    n.m.insert(p.clone(), Node::File(Arc::new(v)));
                    ok(Val::Unit, n)
                }
                Some(Node::Dir) => err_same(ErrReq::Any),
                None => err_same(missing(t, p)),
            }
        }
        Op::RemoveFile(p) => {
            if p.is_empty() {
                return unspecified();
            }
            match t.get(p) {
                Some(Node::File(_)) => {
                    let mut n = t.clone();
                    n.m.remove(p);
                    ok(Val::Unit, n)
                }
                Some(Node::Dir) => err_same(ErrReq::Any),
                None => err_same(missing(t, p)),
            }
        }
        Op::RemoveDir(p) => {
            if p.is_empty() {
                return unspecified();
            }
            match t.get(p) {
                Some(Node::Dir) => {
                    if t.has_children(p) {
                        err_same(ErrReq::Any)
                    } else {
                        let mut n = t.clone();
                        n.m.remove(p);
                        ok(Val::Unit, n)
                    }
                }
                Some(Node::File(_)) => err_same(ErrReq::Any),
                None => err_same(missing(t, p)),
            }
        }
        Op::Read(p) => match t.get(p) {
            Some(Node::File(b)) => ok_same(Val::Bytes(b.clone())),
            Some(Node::Dir) => err_same(ErrReq::Any),
            None => err_same(missing(t, p)),
        },
        Op::ReadDir(p) => match t.get(p) {
            Some(Node::Dir) => ok_same(Val::Names(t.children(p))),
            Some(Node::File(_)) => err_same(ErrReq::Any),
            None => err_same(missing(t, p)),
        },
        Op::Metadata(p) => match t.get(p) {
            Some(Node::Dir) => ok_same(Val::Meta { is_dir: true, len: 0 }),
            Some(Node::File(b)) => ok_same(Val::Meta { is_dir: false, len: b.len() as u64 }),
            None => err_same(missing(t, p)),
        },
        Op::Exists(p) => ok_same(Val::Bool(t.exists(p))),
        Op::IsFile(p) => ok_same(Val::Bool(t.is_file(p))),
        Op::IsDir(p) => ok_same(Val::Bool(t.is_dir(p))),
        Op::CreateDirAll(p) => {
            // fails iff p or one of its proper prefixes is a file
            let mut chain = ancestors_of(p);
            chain.push(p.clone());
            if chain.iter().any(|a| t.is_file(a)) {
                return err_unspec(ErrReq::Any);
            }
            let mut n = t.clone();
            for a in chain {
                n.m.entry(a).or_insert(Node::Dir);
            }
            ok(Val::Unit, n)
        }
        Op::RemoveDirAll(p) => {
            if p.is_empty() {
                return unspecified();
            }
            match t.get(p) {
                None => ok_same(Val::Unit),
                Some(Node::Dir) => {
                    let mut n = t.clone();
                    n.remove_subtree(p);
                    ok(Val::Unit, n)
                }
                Some(Node::File(_)) => err_unspec(ErrReq::Any),
            }
        }
        Op::ReadToString(p) => match t.get(p) {
            Some(Node::File(b)) => match std::str::from_utf8(b) {
                Ok(s) => ok_same(Val::Str(s.to_string())),
                Err(_) => err_same(ErrReq::Any),
            },
            Some(Node::Dir) => err_same(ErrReq::Any),
            None => err_same(missing(t, p)),
        },
        Op::WalkDir(p) => match t.get(p) {
            Some(Node::Dir) => ok_same(Val::Walk(t.descendants(p))),
            Some(Node::File(_)) => err_same(ErrReq::Any),
            None => err_same(missing(t, p)),
        },
        Op::CopyFile(s, d) | Op::MoveFile(s, d) => {
            let is_move = matches!(op, Op::MoveFile(..));
            if d.is_empty() || s.is_empty() {
                return unspecified();
            }
            if t.exists(d) {
                // refused without side effects (C11)
                return err_same(ErrReq::Any);
            }
            match t.get(s) {
                Some(Node::File(b)) => {
                    if !t.is_dir(&parent_of(d)) {
                        return err_unspec(ErrReq::Any);
                    }
                    let mut n = t.clone();
                    n.m.insert(d.clone(), Node::File(b.clone()));
                    if is_move {
                        n.m.remove(s);
                    }
                    ok(Val::Unit, n)
                }
                // wrong-typed source: excluded by the properties
                Some(Node::Dir) => unspecified(),
                None => err_unspec(ErrReq::Any),
            }
        }
        Op::CopyDir(s, d) | Op::MoveDir(s, d) => {
            let is_move = matches!(op, Op::MoveDir(..));
            if d.is_empty() || s.is_empty() {
                return unspecified();
            }
            if is_within(d, s) {
                // into own subtree (or onto itself): excluded, documented non-termination
                return unspecified();
            }
            if t.exists(d) {
                return err_same(ErrReq::Any);
            }
            match t.get(s) {
                Some(Node::Dir) => {
                    if !t.is_dir(&parent_of(d)) {
                        return err_unspec(ErrReq::Any);
                    }
                    let count = t.descendants(s).len() as u64;
                    let mut n = t.clone();
                    n.copy_subtree_to(t, s, d);
                    if is_move {
                        n.remove_subtree(s);
                    }
                    if is_move {
                        ok(Val::Unit, n)
                    } else {
                        ok(Val::Count(count), n)
                    }
                }
                Some(Node::File(_)) => unspecified(),
                None => err_unspec(ErrReq::Any),
            }
        }
        // timestamps never change the abstract tree; outcome judged elsewhere (C19)
        // A setter on a missing entry must fail; where the parent is an existing directory and
        // the operation is implemented by every backend (modification / access time) the error
        // is a not-found (C12). Creation time is not-supported on PhysicalFS: any error.
        Op::SetTime(p, field, ..) if !t.exists(p) => {
            if *field == TimeField::Created {
                err_same(ErrReq::Any)
            } else {
                err_same(missing(t, p))
            }
        }
        Op::SetTime(..) => Predicted { expect: Expect::Unspecified, effect: Effect::Same },
    }
}

#[cfg(test)]
mod tests {
    use super::*;
    #[test]
    fn ancestors() {
        assert_eq!(ancestors_of("/a/b/c"), vec!["", "/a", "/a/b"]);
        assert_eq!(ancestors_of("/a"), vec![""]);
        assert!(ancestors_of("").is_empty());
        assert!(is_within("/a/b", "/a"));
        assert!(!is_within("/ab", "/a"));
        assert!(is_within("/a", ""));
    }
}
