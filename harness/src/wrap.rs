//! Wrappers implementing the public `FileSystem` trait: exact pass-through sharing (SharedFS),
//! call recording (RecFS) and fault injection (FaultFS).

use std::fmt::Debug;
use std::io::{Read, Seek, SeekFrom, Write};
use std::sync::atomic::{AtomicBool, AtomicI64, AtomicU64, Ordering};
use std::sync::{Arc, Mutex};
use std::time::SystemTime;
use vfs::error::VfsErrorKind;
use vfs::{FileSystem, SeekAndRead, SeekAndWrite, VfsError, VfsMetadata, VfsResult};

/// Pass-through to a shared filesystem object, so that the same backend can be reached through
/// a wrapped and an un-wrapped root.
#[derive(Debug, Clone)]
pub struct SharedFS(pub Arc<dyn FileSystem>);

impl FileSystem for SharedFS {
    fn read_dir(&self, path: &str) -> VfsResult<Box<dyn Iterator<Item = String> + Send>> {
        self.0.read_dir(path)
    }
    fn create_dir(&self, path: &str) -> VfsResult<()> {
        self.0.create_dir(path)
    }
    fn open_file(&self, path: &str) -> VfsResult<Box<dyn SeekAndRead + Send>> {
        self.0.open_file(path)
    }
    fn create_file(&self, path: &str) -> VfsResult<Box<dyn SeekAndWrite + Send>> {
        self.0.create_file(path)
    }
    fn append_file(&self, path: &str) -> VfsResult<Box<dyn SeekAndWrite + Send>> {
        self.0.append_file(path)
    }
    fn metadata(&self, path: &str) -> VfsResult<VfsMetadata> {
        self.0.metadata(path)
    }
    fn set_creation_time(&self, path: &str, time: SystemTime) -> VfsResult<()> {
        self.0.set_creation_time(path, time)
    }
    fn set_modification_time(&self, path: &str, time: SystemTime) -> VfsResult<()> {
        self.0.set_modification_time(path, time)
    }
    fn set_access_time(&self, path: &str, time: SystemTime) -> VfsResult<()> {
        self.0.set_access_time(path, time)
    }
    fn exists(&self, path: &str) -> VfsResult<bool> {
        self.0.exists(path)
    }
    fn remove_file(&self, path: &str) -> VfsResult<()> {
        self.0.remove_file(path)
    }
    fn remove_dir(&self, path: &str) -> VfsResult<()> {
        self.0.remove_dir(path)
    }
    fn copy_file(&self, src: &str, dest: &str) -> VfsResult<()> {
        self.0.copy_file(src, dest)
    }
    fn move_file(&self, src: &str, dest: &str) -> VfsResult<()> {
        self.0.move_file(src, dest)
    }
    fn move_dir(&self, src: &str, dest: &str) -> VfsResult<()> {
        self.0.move_dir(src, dest)
    }
}

// ---------------------------------------------------------------------------------------------
// RecFS
// ---------------------------------------------------------------------------------------------

#[derive(Clone, Debug, PartialEq)]
pub struct Call {
    pub layer: usize,
    pub method: &'static str,
    pub path: String,
    pub path2: Option<String>,
    pub mutating: bool,
}

pub type CallLog = Arc<Mutex<Vec<Call>>>;

#[derive(Debug)]
pub struct RecFS {
    pub inner: Arc<dyn FileSystem>,
    pub layer: usize,
    pub log: CallLog,
}

/// layer index for a recorder that wraps a filesystem shared by all layers (usize::MAX):
/// derived from the layer directory the path lies in
pub fn layer_of(layer: usize, path: &str) -> usize {
    if layer != usize::MAX {
        return layer;
    }
    for (i, d) in crate::config::LAYER_DIRS.iter().enumerate() {
        if path == format!("/{}", d) || path.starts_with(&format!("/{}/", d)) {
            return i;
        }
    }
    OUTSIDE_LAYERS
}

/// a path of the shared filesystem that lies in no layer directory at all
pub const OUTSIDE_LAYERS: usize = usize::MAX - 1;

impl RecFS {
    fn rec(&self, method: &'static str, path: &str, path2: Option<&str>, mutating: bool) {
        let lay = match path2 {
            // copy_file only mutates its destination; a move mutates source and destination
            Some(p2) if method == "copy_file" => layer_of(self.layer, p2),
            Some(p2) => layer_of(self.layer, path).max(layer_of(self.layer, p2)),
            None => layer_of(self.layer, path),
        };
        self.log.lock().unwrap().push(Call {
            layer: lay,
            method,
            path: path.to_string(),
            path2: path2.map(|s| s.to_string()),
            mutating,
        });
    }
}

struct RecWriter {
    inner: Box<dyn SeekAndWrite + Send>,
    layer: usize,
    path: String,
    log: CallLog,
}

impl Write for RecWriter {
    fn write(&mut self, buf: &[u8]) -> std::io::Result<usize> {
        self.log.lock().unwrap().push(Call {
            layer: layer_of(self.layer, &self.path),
            method: "handle.write",
            path: self.path.clone(),
            path2: None,
            mutating: true,
        });
        self.inner.write(buf)
    }
    fn flush(&mut self) -> std::io::Result<()> {
        self.inner.flush()
    }
}
impl Seek for RecWriter {
    fn seek(&mut self, pos: SeekFrom) -> std::io::Result<u64> {
        self.inner.seek(pos)
    }
}

impl FileSystem for RecFS {
    fn read_dir(&self, path: &str) -> VfsResult<Box<dyn Iterator<Item = String> + Send>> {
        self.rec("read_dir", path, None, false);
        self.inner.read_dir(path)
    }
    fn create_dir(&self, path: &str) -> VfsResult<()> {
        self.rec("create_dir", path, None, true);
        self.inner.create_dir(path)
    }
    fn open_file(&self, path: &str) -> VfsResult<Box<dyn SeekAndRead + Send>> {
        self.rec("open_file", path, None, false);
        self.inner.open_file(path)
    }
    fn create_file(&self, path: &str) -> VfsResult<Box<dyn SeekAndWrite + Send>> {
        self.rec("create_file", path, None, true);
        let inner = self.inner.create_file(path)?;
        Ok(Box::new(RecWriter { inner, layer: self.layer, path: path.to_string(), log: self.log.clone() }))
    }
    fn append_file(&self, path: &str) -> VfsResult<Box<dyn SeekAndWrite + Send>> {
        self.rec("append_file", path, None, true);
        let inner = self.inner.append_file(path)?;
        Ok(Box::new(RecWriter { inner, layer: self.layer, path: path.to_string(), log: self.log.clone() }))
    }
    fn metadata(&self, path: &str) -> VfsResult<VfsMetadata> {
        self.rec("metadata", path, None, false);
        self.inner.metadata(path)
    }
    fn set_creation_time(&self, path: &str, time: SystemTime) -> VfsResult<()> {
        self.rec("set_creation_time", path, None, true);
        self.inner.set_creation_time(path, time)
    }
    fn set_modification_time(&self, path: &str, time: SystemTime) -> VfsResult<()> {
        self.rec("set_modification_time", path, None, true);
        self.inner.set_modification_time(path, time)
    }
    fn set_access_time(&self, path: &str, time: SystemTime) -> VfsResult<()> {
        self.rec("set_access_time", path, None, true);
        self.inner.set_access_time(path, time)
    }
    fn exists(&self, path: &str) -> VfsResult<bool> {
        self.rec("exists", path, None, false);
        self.inner.exists(path)
    }
    fn remove_file(&self, path: &str) -> VfsResult<()> {
        self.rec("remove_file", path, None, true);
        self.inner.remove_file(path)
    }
    fn remove_dir(&self, path: &str) -> VfsResult<()> {
        self.rec("remove_dir", path, None, true);
        self.inner.remove_dir(path)
    }
    fn copy_file(&self, src: &str, dest: &str) -> VfsResult<()> {
        self.rec("copy_file", src, Some(dest), true);
        self.inner.copy_file(src, dest)
    }
    fn move_file(&self, src: &str, dest: &str) -> VfsResult<()> {
        self.rec("move_file", src, Some(dest), true);
        self.inner.move_file(src, dest)
    }
    fn move_dir(&self, src: &str, dest: &str) -> VfsResult<()> {
        self.rec("move_dir", src, Some(dest), true);
        self.inner.move_dir(src, dest)
    }
}

// ---------------------------------------------------------------------------------------------
// FaultFS
// ---------------------------------------------------------------------------------------------

/// Shared fault plan: counts every trait call (and optionally handle I/O) made into any wrapped
/// filesystem while `armed`; the call with ordinal `fail_at` fails with an I/O error.
#[derive(Debug)]
pub struct FaultPlan {
    pub armed: AtomicBool,
    pub counter: AtomicU64,
    /// ordinal to fail (-1 = none)
    pub fail_at: AtomicI64,
    /// count handle reads/writes as calls too
    pub handle_io: AtomicBool,
    pub fired: Mutex<Option<(usize, &'static str, String)>>,
    pub trace: Mutex<Vec<(usize, &'static str, String)>>,
}

impl FaultPlan {
    pub fn new() -> Arc<FaultPlan> {
        Arc::new(FaultPlan {
            armed: AtomicBool::new(false),
            counter: AtomicU64::new(0),
            fail_at: AtomicI64::new(-1),
            handle_io: AtomicBool::new(false),
            fired: Mutex::new(None),
            trace: Mutex::new(vec![]),
        })
    }
    pub fn arm(&self, fail_at: i64, handle_io: bool) {
        self.counter.store(0, Ordering::SeqCst);
        self.fail_at.store(fail_at, Ordering::SeqCst);
        self.handle_io.store(handle_io, Ordering::SeqCst);
        *self.fired.lock().unwrap() = None;
        self.trace.lock().unwrap().clear();
        self.armed.store(true, Ordering::SeqCst);
    }
    pub fn disarm(&self) -> u64 {
        self.armed.store(false, Ordering::SeqCst);
        self.counter.load(Ordering::SeqCst)
    }
    /// returns true if this call must fail
    fn tick(&self, layer: usize, method: &'static str, path: &str) -> bool {
        if !self.armed.load(Ordering::SeqCst) {
            return false;
        }
        let n = self.counter.fetch_add(1, Ordering::SeqCst);
        self.trace.lock().unwrap().push((layer, method, path.to_string()));
        if n as i64 == self.fail_at.load(Ordering::SeqCst) {
            *self.fired.lock().unwrap() = Some((layer, method, path.to_string()));
            return true;
        }
        false
    }
}

fn injected() -> std::io::Error {
    std::io::Error::new(std::io::ErrorKind::Other, "injected fault (EIO)")
}

fn injected_vfs() -> VfsError {
    VfsError::from(VfsErrorKind::IoError(injected()))
}

#[derive(Debug)]
pub struct FaultFS {
    pub inner: Arc<dyn FileSystem>,
    pub layer: usize,
    pub plan: Arc<FaultPlan>,
}

struct FaultReader {
    inner: Box<dyn SeekAndRead + Send>,
    layer: usize,
    path: String,
    plan: Arc<FaultPlan>,
}
impl Read for FaultReader {
    fn read(&mut self, buf: &mut [u8]) -> std::io::Result<usize> {
        if self.plan.handle_io.load(Ordering::SeqCst) && self.plan.tick(self.layer, "handle.read", &self.path) {
            return Err(injected());
        }
        self.inner.read(buf)
    }
}
impl Seek for FaultReader {
    fn seek(&mut self, pos: SeekFrom) -> std::io::Result<u64> {
        self.inner.seek(pos)
    }
}
struct FaultWriter {
    inner: Box<dyn SeekAndWrite + Send>,
    layer: usize,
    path: String,
    plan: Arc<FaultPlan>,
}
impl Write for FaultWriter {
    fn write(&mut self, buf: &[u8]) -> std::io::Result<usize> {
        if self.plan.handle_io.load(Ordering::SeqCst) && self.plan.tick(self.layer, "handle.write", &self.path) {
            return Err(injected());
        }
        self.inner.write(buf)
    }
    fn flush(&mut self) -> std::io::Result<()> {
        self.inner.flush()
    }
}
impl Seek for FaultWriter {
    fn seek(&mut self, pos: SeekFrom) -> std::io::Result<u64> {
        self.inner.seek(pos)
    }
}

macro_rules! fault {
    ($self:ident, $m:expr, $p:expr) => {
        if $self.plan.tick($self.layer, $m, $p) {
            return Err(injected_vfs());
        }
    };
}

impl FileSystem for FaultFS {
    fn read_dir(&self, path: &str) -> VfsResult<Box<dyn Iterator<Item = String> + Send>> {
        fault!(self, "read_dir", path);
        self.inner.read_dir(path)
    }
    fn create_dir(&self, path: &str) -> VfsResult<()> {
        fault!(self, "create_dir", path);
        self.inner.create_dir(path)
    }
    fn open_file(&self, path: &str) -> VfsResult<Box<dyn SeekAndRead + Send>> {
        fault!(self, "open_file", path);
        let inner = self.inner.open_file(path)?;
        Ok(Box::new(FaultReader { inner, layer: self.layer, path: path.to_string(), plan: self.plan.clone() }))
    }
    fn create_file(&self, path: &str) -> VfsResult<Box<dyn SeekAndWrite + Send>> {
        fault!(self, "create_file", path);
        let inner = self.inner.create_file(path)?;
        Ok(Box::new(FaultWriter { inner, layer: self.layer, path: path.to_string(), plan: self.plan.clone() }))
    }
    fn append_file(&self, path: &str) -> VfsResult<Box<dyn SeekAndWrite + Send>> {
        fault!(self, "append_file", path);
        let inner = self.inner.append_file(path)?;
        Ok(Box::new(FaultWriter { inner, layer: self.layer, path: path.to_string(), plan: self.plan.clone() }))
    }
    fn metadata(&self, path: &str) -> VfsResult<VfsMetadata> {
        fault!(self, "metadata", path);
        self.inner.metadata(path)
    }
    fn set_creation_time(&self, path: &str, time: SystemTime) -> VfsResult<()> {
        fault!(self, "set_creation_time", path);
        self.inner.set_creation_time(path, time)
    }
    fn set_modification_time(&self, path: &str, time: SystemTime) -> VfsResult<()> {
        fault!(self, "set_modification_time", path);
        self.inner.set_modification_time(path, time)
    }
    fn set_access_time(&self, path: &str, time: SystemTime) -> VfsResult<()> {
        fault!(self, "set_access_time", path);
        self.inner.set_access_time(path, time)
    }
    fn exists(&self, path: &str) -> VfsResult<bool> {
        fault!(self, "exists", path);
        self.inner.exists(path)
    }
    fn remove_file(&self, path: &str) -> VfsResult<()> {
        fault!(self, "remove_file", path);
        self.inner.remove_file(path)
    }
    fn remove_dir(&self, path: &str) -> VfsResult<()> {
        fault!(self, "remove_dir", path);
        self.inner.remove_dir(path)
    }
    fn copy_file(&self, src: &str, dest: &str) -> VfsResult<()> {
        fault!(self, "copy_file", src);
        self.inner.copy_file(src, dest)
    }
    fn move_file(&self, src: &str, dest: &str) -> VfsResult<()> {
        fault!(self, "move_file", src);
        self.inner.move_file(src, dest)
    }
    fn move_dir(&self, src: &str, dest: &str) -> VfsResult<()> {
        fault!(self, "move_dir", src);
        self.inner.move_dir(src, dest)
    }
}
