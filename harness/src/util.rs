//! Small shared helpers: hashing, panic capture, scratch directories, byte rendering.

use std::cell::RefCell;
use std::panic::{catch_unwind, AssertUnwindSafe};
use std::path::{Path, PathBuf};
use std::sync::atomic::{AtomicU64, Ordering};
use std::sync::Once;

/// FNV-1a 64 bit, deterministic across runs (no RandomState anywhere in an oracle).
pub fn fnv(bytes: &[u8]) -> u64 {
    let mut h: u64 = 0xcbf29ce484222325;
    for b in bytes {
        h ^= *b as u64;
        h = h.wrapping_mul(0x100000001b3);
    }
    h
}

pub fn fnv_str(s: &str) -> u64 {
    fnv(s.as_bytes())
}

pub fn mix(a: u64, b: u64) -> u64 {
    let mut x = a ^ b.wrapping_mul(0x9E3779B97F4A7C15);
    x ^= x >> 30;
    x = x.wrapping_mul(0xBF58476D1CE4E5B9);
    x ^= x >> 27;
    x = x.wrapping_mul(0x94D049BB133111EB);
    x ^= x >> 31;
    x
}

/// Monotone index mapping (shrinks well): i in 0..=65535 onto 0..len
pub fn idx(i: u16, len: usize) -> usize {
    if len == 0 {
        return 0;
    }
    ((i as usize) * len) >> 16
}

thread_local! {
    static LAST_PANIC: RefCell<Option<String>> = const { RefCell::new(None) };
}

static HOOK: Once = Once::new();

/// Install a silent panic hook that records message and location per thread.
pub fn install_panic_hook() {
    HOOK.call_once(|| {
        std::panic::set_hook(Box::new(|info| {
            let msg = if let Some(s) = info.payload().downcast_ref::<&str>() {
                s.to_string()
            } else if let Some(s) = info.payload().downcast_ref::<String>() {
                s.clone()
            } else {
                "<non-string panic>".to_string()
            };
            let loc = info
                .location()
                .map(|l| format!("{}:{}", l.file(), l.line()))
                .unwrap_or_default();
            LAST_PANIC.with(|p| *p.borrow_mut() = Some(format!("{} @ {}", msg, loc)));
        }));
    });
}

/// Run `f`, turning a panic into Err(message @ location).
pub fn guarded<T>(f: impl FnOnce() -> T) -> Result<T, String> {
    LAST_PANIC.with(|p| *p.borrow_mut() = None);
    match catch_unwind(AssertUnwindSafe(f)) {
        Ok(v) => Ok(v),
        Err(_) => Err(LAST_PANIC
            .with(|p| p.borrow_mut().take())
            .unwrap_or_else(|| "<panic>".to_string())),
    }
}

/// Render bytes compactly for samples / replays.
pub fn show_bytes(b: &[u8]) -> String {
    if b.len() <= 24 {
        match std::str::from_utf8(b) {
            Ok(s) if s.chars().all(|c| !c.is_control()) => format!("{:?}", s),
            _ => format!("0x{}", hex(b)),
        }
    } else {
        format!("<{} bytes fnv={:016x} head=0x{}>", b.len(), fnv(b), hex(&b[..8]))
    }
}

pub fn hex(b: &[u8]) -> String {
    let mut s = String::with_capacity(b.len() * 2);
    for x in b {
        s.push_str(&format!("{:02x}", x));
    }
    s
}

pub fn unhex(s: &str) -> Vec<u8> {
    let s = s.as_bytes();
    let mut out = Vec::with_capacity(s.len() / 2);
    let mut i = 0;
    while i + 1 < s.len() {
        let h = (s[i] as char).to_digit(16).unwrap_or(0) as u8;
        let l = (s[i + 1] as char).to_digit(16).unwrap_or(0) as u8;
        out.push(h << 4 | l);
        i += 2;
    }
    out
}

static SCRATCH_COUNTER: AtomicU64 = AtomicU64::new(0);

/// Base directory for all scratch data of this process.
pub fn scratch_base() -> PathBuf {
    let base = std::env::var("VERIF_SCRATCH").ok().map(PathBuf::from).unwrap_or_else(|| {
        let shm = Path::new("/dev/shm");
        if shm.is_dir() {
            shm.to_path_buf()
        } else {
            std::env::temp_dir()
        }
    });
    base.join(format!("vv-{}", std::process::id()))
}

/// A scratch directory removed on drop.
pub struct Scratch {
    pub dir: PathBuf,
}

impl Scratch {
    pub fn new(tag: &str) -> Scratch {
        let n = SCRATCH_COUNTER.fetch_add(1, Ordering::Relaxed);
        let dir = scratch_base().join(format!("{}-{}", tag, n));
        std::fs::create_dir_all(&dir).expect("scratch dir must be creatable");
        Scratch { dir }
    }
    pub fn sub(&self, name: &str) -> PathBuf {
        let p = self.dir.join(name);
        std::fs::create_dir_all(&p).expect("scratch subdir");
        p
    }
}

impl Drop for Scratch {
    fn drop(&mut self) {
        let _ = std::fs::remove_dir_all(&self.dir);
    }
}

pub fn cleanup_scratch_base() {
    let _ = std::fs::remove_dir_all(scratch_base());
}

/// Holds a handle whose Drop may panic (write handles publish in Drop): if a panic is already
/// unwinding through the holder, the handle is leaked instead of dropped, so that the FIRST panic
/// reaches catch_unwind and is reported instead of aborting the process with a double panic.
pub struct Held<T>(std::mem::ManuallyDrop<T>);

pub fn hold<T>(t: T) -> Held<T> {
    Held(std::mem::ManuallyDrop::new(t))
}

impl<T> std::ops::Deref for Held<T> {
    type Target = T;
    fn deref(&self) -> &T {
        &self.0
    }
}

impl<T> std::ops::DerefMut for Held<T> {
    fn deref_mut(&mut self) -> &mut T {
        &mut self.0
    }
}

impl<T> Drop for Held<T> {
    fn drop(&mut self) {
        if !std::thread::panicking() {
            unsafe { std::mem::ManuallyDrop::drop(&mut self.0) }
        }
    }
}

impl<T: std::io::Write> std::io::Write for Held<T> {
    fn write(&mut self, buf: &[u8]) -> std::io::Result<usize> {
        self.0.write(buf)
    }
    fn flush(&mut self) -> std::io::Result<()> {
        self.0.flush()
    }
}

impl<T: std::io::Seek> std::io::Seek for Held<T> {
    fn seek(&mut self, pos: std::io::SeekFrom) -> std::io::Result<u64> {
        self.0.seek(pos)
    }
}


/// A listing is an `Iterator`: however it is consumed (`nth`, `skip`, `step_by`, `last`, `count`,
/// `size_hint`) it must deliver the same multiset of names as plain iteration. `fresh` returns a
/// new listing of the same directory (as strings); the order may differ between two listings, so
/// only membership, multiplicity and counts are compared.
pub fn listing_iterator_contract(fresh: &dyn Fn() -> Option<Box<dyn Iterator<Item = String>>>) -> Result<(), String> {
    let Some(it) = fresh() else { return Ok(()) };
    let mut full: Vec<String> = it.collect();
    full.sort();
    let n = full.len();
    let check = |what: String, got: Vec<String>, want_len: usize| -> Result<(), String> {
        let mut g = got.clone();
        g.sort();
        let dup = g.windows(2).any(|w| w[0] == w[1]);
        let foreign = g.iter().any(|x| full.binary_search(x).is_err());
        if dup || foreign || g.len() != want_len {
            return Err(format!("{} yields {} names{}{} where plain iteration yields {} (so {} expected): {:?}", what, g.len(), if dup { " with a repeated name" } else { "" }, if foreign { " with a name that plain iteration does not list" } else { "" }, n, want_len, got.iter().take(6).collect::<Vec<_>>()));
        }
        Ok(())
    };
    for k in [0usize, 1, 2, n.saturating_sub(1), n, n + 1] {
        if let Some(it) = fresh() {
            check(format!("skip({})", k), it.skip(k).collect(), n.saturating_sub(k))?;
        }
        if let Some(mut it) = fresh() {
            let first = it.nth(k);
            if first.is_some() != (k < n) {
                return Err(format!("nth({}) is {:?} on a listing of {} names", k, first, n));
            }
            let mut got: Vec<String> = first.into_iter().collect();
            got.extend(it);
            check(format!("nth({}) followed by the rest", k), got, if k < n { n - k } else { 0 })?;
        }
    }
    for step in [2usize, 3] {
        if let Some(it) = fresh() {
            check(format!("step_by({})", step), it.step_by(step).collect(), (n + step - 1) / step)?;
        }
    }
    if let Some(it) = fresh() {
        let (lo, hi) = it.size_hint();
        if lo > n || hi.map(|h| h < n).unwrap_or(false) {
            return Err(format!("size_hint() = ({}, {:?}) on a listing of {} names", lo, hi, n));
        }
        let c = it.count();
        if c != n {
            return Err(format!("count() = {} on a listing of {} names", c, n));
        }
    }
    if let Some(mut it) = fresh() {
        // partially consumed, then the hint and the remainder
        let a = it.next();
        let (lo, hi) = it.size_hint();
        let rest: Vec<String> = it.collect();
        if a.is_some() != (n > 0) || lo > rest.len() || hi.map(|h| h < rest.len()).unwrap_or(false) {
            return Err(format!("after one next(): size_hint ({}, {:?}) but {} names remain of {}", lo, hi, rest.len(), n));
        }
        let mut got: Vec<String> = a.into_iter().collect();
        got.extend(rest);
        check("next() followed by the rest".into(), got, n)?;
    }
    if let Some(it) = fresh() {
        let l = it.last();
        if l.is_some() != (n > 0) || l.map(|x| full.binary_search(&x).is_err()).unwrap_or(false) {
            return Err(format!("last() is wrong on a listing of {} names", n));
        }
    }
    Ok(())
}
