//! Generators: name pools, file contents, abstract (selector-based) operations and their
//! resolution against the current state, backend configurations, layer pre-population.

use crate::config::{Cfg, Prepop};
use crate::model::*;
use crate::util::idx;
use proptest::prelude::*;
use std::collections::BTreeMap;
use std::sync::Arc;

// ---------------------------------------------------------------------------------------------
// names
// ---------------------------------------------------------------------------------------------

/// Candidate component names, grouped. Overlay-reserved names ('.whiteout', '*_wo') never occur.
pub const NAME_GROUPS: [&[&str]; 6] = [
    // plain
    &["a", "b", "c", "d", "k", "x1"],
    // prefix siblings
    // (the last two CONTAIN the overlay's marker suffix without ending in it: ordinary names)
    &["ab", "a.b", "a b", "abc", "a-", "a_", "a_world", "a_wo.txt"],
    // dotted
    &[".h", "c..d", "e.", "x.tar.gz", "...", ".a.b"],
    // multi-byte
    &["ü", "日本", "e\u{301}", "ß😀", "a\u{303}b"],
    // odd ASCII
    &["-", "~", "a\\b", "%41", "'q'", "*", "?", "a:b", "$x", "A"],
    // long ("L": ASCII, "M": multi-byte, both expanded by the pool strategy)
    &["L", "M"],
];

/// long multi-byte name: `lead` ASCII bytes, then 'ü' (2 bytes) up to about n bytes - so that byte
/// offsets inside paths fall into the middle of a scalar for some lead
pub fn long_mb_name(n: usize, lead: usize) -> String {
    let mut s = String::from("M");
    for _ in 0..lead {
        s.push('m');
    }
    while s.len() + 2 <= n {
        s.push('ü');
    }
    s
}

/// cut a name to at most `max` bytes on a character boundary
pub fn cut_name(n: &mut String, max: usize) {
    if n.len() > max {
        let mut k = max;
        while !n.is_char_boundary(k) {
            k -= 1;
        }
        n.truncate(k);
    }
}

pub fn long_name(n: usize) -> String {
    let mut s = String::from("L");
    while s.len() < n {
        s.push(char::from(b'a' + (s.len() % 26) as u8));
    }
    s
}

/// A pool of 3..=5 distinct names; always contains "a" so that prefix siblings are meaningful.
pub fn pool_strategy() -> impl Strategy<Value = Vec<String>> {
    prop_oneof![
        12 => base_pool_strategy(),
        // WIDE: 12..=20 names (directories with many entries; depth is clamped to 2)
        1 => (12usize..=20, any::<u8>()).prop_map(|(n, flavour)| {
            let mut pool = vec!["a".to_string(), "ab".to_string()];
            for i in 0..n - 2 {
                pool.push(match (i + flavour as usize) % 5 {
                    0 => format!("n{}", i),
                    1 => format!("f{}.txt", i),
                    2 => format!("ü{}", i),
                    3 => format!("a{}", i),
                    _ => format!("{}", i),
                });
            }
            pool
        }),
        // names an implementation might pick for its own temporaries next to an entry "a"
        1 => (0usize..4).prop_map(|v| {
            let all = ["a", "a.part", "a.tmp", "a~", "a.bak", ".a.swp", "a.lock", "a.new", "a.old", "a.partial"];
            let mut pool = vec!["a".to_string()];
            for i in 0..4 {
                pool.push(all[1 + (v * 2 + i * 3) % (all.len() - 1)].to_string());
            }
            pool.dedup();
            pool
        }),
        // NARROW: two names, so that the universe can be 7 levels deep
        1 => (0usize..6, any::<u16>()).prop_map(|(g, i)| {
            let grp = NAME_GROUPS[g];
            let mut name = grp[idx(i, grp.len())].to_string();
            if name == "L" || name == "M" || name == "a" {
                name = "b.c".to_string();
            }
            vec!["a".to_string(), name]
        }),
    ]
}

fn base_pool_strategy() -> impl Strategy<Value = Vec<String>> {
    (proptest::collection::vec((0usize..6, any::<u16>()), 2..=4), 0u8..4).prop_map(|(picks, longsel)| {
        let mut pool = vec!["a".to_string()];
        for (g, i) in picks {
            let grp = NAME_GROUPS[g];
            let mut name = grp[idx(i, grp.len())].to_string();
            let want = match longsel {
                0 => 200,
                1 => 254,
                2 => 255,
                _ => 100,
            };
            if name == "L" {
                name = long_name(want);
            } else if name == "M" {
                name = long_mb_name(want, i as usize % 4);
            }
            if !pool.contains(&name) {
                pool.push(name);
            }
        }
        if pool.len() < 3 {
            for extra in ["ab", "b"] {
                if pool.len() < 3 && !pool.contains(&extra.to_string()) {
                    pool.push(extra.to_string());
                }
            }
        }
        pool
    })
}

pub fn pool_has_prefix_pair(pool: &[String]) -> bool {
    pool.iter().any(|a| pool.iter().any(|b| a != b && b.starts_with(a.as_str())))
}

pub fn pool_class(pool: &[String]) -> Vec<&'static str> {
    let mut v = vec![];
    if pool.iter().any(|n| !n.is_ascii()) {
        v.push("multibyte");
    }
    if pool.iter().any(|n| n.contains('.')) {
        v.push("dotted");
    }
    if pool.iter().any(|n| n.len() >= 100) {
        v.push("long");
    }
    if pool_has_prefix_pair(pool) {
        v.push("prefix-pair");
    }
    if pool.len() >= 12 {
        v.push("wide(12-20 names, depth 2)");
    }
    if pool.len() == 2 {
        v.push("deep(2 names, depth up to 7)");
    }
    v
}

// ---------------------------------------------------------------------------------------------
// contents
// ---------------------------------------------------------------------------------------------

#[derive(Clone, Debug, PartialEq)]
pub struct DataSpec {
    pub kind: u8,
    pub len: u16,
    pub seed: u8,
}

pub fn data_strategy() -> impl Strategy<Value = DataSpec> {
    (any::<u8>(), any::<u16>(), any::<u8>()).prop_map(|(kind, len, seed)| DataSpec { kind, len, seed })
}

pub fn make_bytes(d: &DataSpec) -> Bytes {
    let k = d.kind % 32;
    let len: usize = match k {
        0..=3 => 0,
        4..=6 => 1,
        7..=18 => 2 + (d.len as usize % 40),
        19..=22 => 8190 + (d.len as usize % 5),     // around the 8 KiB copy buffer
        23..=24 => 16383 + (d.len as usize % 3),
        25 => 65536 + (d.len as usize % 4096),
        // block boundaries of copy loops and buffers beyond the 8 KiB std::io::copy buffer
        26 => [32768, 65535, 65536, 65537, 131071, 131072, 131073, 196608, 262144, 262145, 393216, 524288][d.len as usize % 12],
        27 => 131072 + (d.len as usize % 70000),
        _ => 100 + (d.len as usize % 3000),
    };
    let mode = d.seed % 4;
    let mut v = Vec::with_capacity(len);
    for i in 0..len {
        let b = match mode {
            0 => b'a' + ((i + d.seed as usize) % 26) as u8,                  // ASCII text
            1 => ((i * 31 + d.seed as usize * 7) % 256) as u8,               // binary, non-UTF-8
            2 => if i % 7 == 3 { 0xff } else { b'0' + (i % 10) as u8 },      // mostly text, invalid UTF-8
            _ => "häß日".as_bytes()[i % "häß日".len()],                     // multi-byte text (may cut)
        };
        v.push(b);
    }
    Arc::new(v)
}

// ---------------------------------------------------------------------------------------------
// abstract ops
// ---------------------------------------------------------------------------------------------

#[derive(Clone, Debug, PartialEq)]
pub struct RawOp {
    pub kind: u8,
    pub mode: u8,
    pub a: u16,
    pub b: u16,
    pub mode2: u8,
    pub c: u16,
    pub d: u16,
    pub data: DataSpec,
}

pub fn rawop_strategy() -> impl Strategy<Value = RawOp> {
    (any::<u8>(), any::<u8>(), any::<u16>(), any::<u16>(), any::<u8>(), any::<u16>(), any::<u16>(), data_strategy())
        .prop_map(|(kind, mode, a, b, mode2, c, d, data)| RawOp { kind, mode, a, b, mode2, c, d, data })
}

#[derive(Clone, Copy, Debug, PartialEq, Eq)]
pub enum Profile {
    /// C01 domain: all primitives on all targets incl. wrong-typed ones, composites with
    /// well-typed sources, no root mutation, no self-subtree transfer
    Typed,
    /// C03/C13 domain: every call on every path, root included (only self-subtree transfers
    /// are excluded)
    Untyped,
}

#[derive(Clone, Copy, Debug, PartialEq, Eq)]
pub enum Want {
    File,
    Dir,         // any directory incl. root
    NonRootDir,
    EmptyDir,    // non-root
    NonEmptyDir, // non-root
    AbsentChild, // absent name in an existing directory
    BelowFile,   // path whose parent is a file
    Existing,    // non-root existing entry
    Any,         // any universe path
    DeepAbsent,  // absent path whose parent is absent too
}

pub struct Ctx<'a> {
    pub pool: &'a [String],
    pub depth: usize,
    pub uni: &'a [String],
}

fn pick<'x>(v: &'x [String], i: u16) -> Option<&'x String> {
    if v.is_empty() {
        None
    } else {
        Some(&v[idx(i, v.len())])
    }
}

/// Choose a path of class `want` in state `t`; falls back to an arbitrary universe path.
pub fn choose(t: &Tree, ctx: &Ctx, want: Want, i: u16, j: u16) -> String {
    let r: Option<String> = match want {
        Want::File => pick(&t.files(), i).cloned(),
        Want::Dir => pick(&t.dirs(), i).cloned(),
        Want::NonRootDir => {
            let d: Vec<String> = t.dirs().into_iter().filter(|p| !p.is_empty()).collect();
            pick(&d, i).cloned()
        }
        Want::EmptyDir => {
            let d: Vec<String> = t.dirs().into_iter().filter(|p| !p.is_empty() && !t.has_children(p)).collect();
            pick(&d, i).cloned()
        }
        Want::NonEmptyDir => {
            let d: Vec<String> = t.dirs().into_iter().filter(|p| !p.is_empty() && t.has_children(p)).collect();
            pick(&d, i).cloned()
        }
        Want::AbsentChild => {
            let d: Vec<String> = t.dirs().into_iter().filter(|p| depth_of(p) < ctx.depth).collect();
            pick(&d, i).and_then(|dir| {
                // first absent name starting at j
                let n = ctx.pool.len();
                let start = idx(j, n);
                (0..n).map(|k| format!("{}/{}", dir, ctx.pool[(start + k) % n])).find(|p| !t.exists(p))
            })
        }
        Want::BelowFile => {
            let f: Vec<String> = t.files().into_iter().filter(|p| depth_of(p) < ctx.depth).collect();
            pick(&f, i).map(|file| format!("{}/{}", file, ctx.pool[idx(j, ctx.pool.len())]))
        }
        Want::Existing => {
            let e: Vec<String> = t.m.keys().filter(|p| !p.is_empty()).cloned().collect();
            pick(&e, i).cloned()
        }
        Want::DeepAbsent => {
            let cands: Vec<String> =
                ctx.uni.iter().filter(|p| !t.exists(p) && !t.exists(&parent_of(p))).cloned().collect();
            pick(&cands, i).cloned()
        }
        Want::Any => None,
    };
    r.unwrap_or_else(|| ctx.uni[idx(i ^ j.rotate_left(3), ctx.uni.len())].clone())
}

fn weighted(mode: u8, table: &[(u8, Want)]) -> Want {
    let total: u32 = table.iter().map(|(w, _)| *w as u32).sum();
    let mut x = (mode as u32 * total) >> 8;
    for (w, want) in table {
        if x < *w as u32 {
            return *want;
        }
        x -= *w as u32;
    }
    table[table.len() - 1].1
}

pub const N_KINDS_TYPED: u8 = 19; // without set_time

/// Weighted op-kind selection: mutators dominate so that trees grow and shrink.
fn kind_from(k: u8, with_time: bool) -> usize {
    // table of (weight, kind index)
    const T: [(u8, usize); 19] = [
        (30, 0),  // create_dir
        (34, 1),  // create_file
        (14, 2),  // append
        (16, 3),  // remove_file
        (16, 4),  // remove_dir
        (10, 5),  // read
        (8, 6),   // read_dir
        (6, 7),   // metadata
        (4, 8),   // exists
        (3, 9),   // is_file
        (3, 10),  // is_dir
        (12, 11), // create_dir_all
        (10, 12), // remove_dir_all
        (5, 13),  // read_to_string
        (7, 14),  // walk_dir
        (9, 15),  // copy_file
        (9, 16),  // move_file
        (8, 17),  // copy_dir
        (8, 18),  // move_dir
    ];
    let total: u32 = T.iter().map(|(w, _)| *w as u32).sum::<u32>() + if with_time { 12 } else { 0 };
    let mut x = (k as u32 * total) >> 8;
    for (w, kind) in T.iter() {
        if x < *w as u32 {
            return *kind;
        }
        x -= *w as u32;
    }
    19
}

/// Resolve an abstract op against the current (model or observed) tree.
pub fn resolve(raw: &RawOp, t: &Tree, ctx: &Ctx, profile: Profile, with_time: bool) -> Op {
    resolve_kind(kind_from(raw.kind, with_time), raw, t, ctx, profile)
}

/// Resolve with an explicitly chosen op kind (index into model::OP_KINDS).
pub fn resolve_kind(kind: usize, raw: &RawOp, t: &Tree, ctx: &Ctx, profile: Profile) -> Op {
    use Want::*;
    let typed = profile == Profile::Typed;
    let tgt = |table: &[(u8, Want)]| -> String {
        let want = if typed { weighted(raw.mode, table) } else { weighted(raw.mode, &[(3, Existing), (2, Any), (1, Dir), (1, File), (1, AbsentChild), (1, BelowFile)]) };
        let p = choose(t, ctx, want, raw.a, raw.b);
        if typed && p.is_empty() {
            // no root mutation in the typed profile: fall back to a universe path
            return ctx.uni[idx(raw.a, ctx.uni.len())].clone();
        }
        p
    };
    let tgt_obs = |table: &[(u8, Want)]| -> String {
        // observers may target the root in both profiles
        let want = if typed { weighted(raw.mode, table) } else { weighted(raw.mode, &[(3, Existing), (2, Any), (2, Dir), (1, File), (1, BelowFile)]) };
        choose(t, ctx, want, raw.a, raw.b)
    };
    let data = || make_bytes(&raw.data);
    match kind {
        0 => Op::CreateDir(tgt(&[(12, AbsentChild), (3, NonRootDir), (3, File), (2, BelowFile), (2, DeepAbsent), (1, Any)])),
        1 => Op::CreateFile(tgt(&[(10, AbsentChild), (5, File), (3, NonRootDir), (2, BelowFile), (2, DeepAbsent), (1, Any)]), data()),
        2 => Op::Append(tgt(&[(10, File), (3, AbsentChild), (3, NonRootDir), (1, BelowFile), (1, DeepAbsent), (1, Any)]), data()),
        3 => Op::RemoveFile(tgt(&[(10, File), (3, AbsentChild), (2, EmptyDir), (2, NonEmptyDir), (1, BelowFile), (1, DeepAbsent), (1, Any)])),
        4 => Op::RemoveDir(tgt(&[(8, EmptyDir), (4, NonEmptyDir), (3, File), (3, AbsentChild), (1, BelowFile), (1, DeepAbsent), (1, Any)])),
        5 => Op::Read(tgt_obs(&[(8, File), (3, Dir), (3, AbsentChild), (1, BelowFile), (1, Any)])),
        6 => Op::ReadDir(tgt_obs(&[(8, Dir), (3, File), (3, AbsentChild), (1, BelowFile), (1, Any)])),
        7 => Op::Metadata(tgt_obs(&[(5, File), (5, Dir), (3, AbsentChild), (1, BelowFile), (1, Any)])),
        8 => Op::Exists(tgt_obs(&[(4, Existing), (3, AbsentChild), (1, BelowFile), (2, Any)])),
        9 => Op::IsFile(tgt_obs(&[(4, Existing), (3, AbsentChild), (1, BelowFile), (2, Any)])),
        10 => Op::IsDir(tgt_obs(&[(4, Existing), (3, AbsentChild), (1, BelowFile), (2, Any)])),
        11 => {
            let p = if typed {
                match weighted(raw.mode, &[(8, DeepAbsent), (3, AbsentChild), (2, NonRootDir), (2, BelowFile), (1, File), (1, Any)]) {
                    w => choose(t, ctx, w, raw.a, raw.b),
                }
            } else {
                tgt(&[])
            };
            Op::CreateDirAll(p)
        }
        12 => Op::RemoveDirAll(tgt(&[(7, NonEmptyDir), (3, EmptyDir), (3, AbsentChild), (2, File), (1, DeepAbsent), (1, Any)])),
        13 => Op::ReadToString(tgt_obs(&[(8, File), (2, Dir), (2, AbsentChild), (1, Any)])),
        14 => Op::WalkDir(tgt_obs(&[(8, Dir), (2, File), (2, AbsentChild), (1, Any)])),
        15 | 16 => {
            // file transfers: well-typed source in the typed profile
            let (s, d);
            if typed {
                let sw = weighted(raw.mode, &[(12, File), (2, AbsentChild), (1, DeepAbsent)]);
                s = choose(t, ctx, sw, raw.a, raw.b);
                let dw = weighted(raw.mode2, &[(10, AbsentChild), (3, File), (2, NonRootDir), (2, DeepAbsent), (1, BelowFile), (1, Any)]);
                d = choose(t, ctx, dw, raw.c, raw.d);
                if s.is_empty() || d.is_empty() || t.is_dir(&s) {
                    // keep inside the domain: degrade to an observer
                    return Op::Exists(s);
                }
            } else {
                s = choose(t, ctx, weighted(raw.mode, &[(3, Existing), (2, Any), (1, File)]), raw.a, raw.b);
                d = choose(t, ctx, weighted(raw.mode2, &[(3, AbsentChild), (2, Existing), (2, Any)]), raw.c, raw.d);
            }
            if kind == 15 {
                Op::CopyFile(s, d)
            } else {
                Op::MoveFile(s, d)
            }
        }
        17 | 18 => {
            let (s, d);
            if typed {
                let sw = weighted(raw.mode, &[(8, NonEmptyDir), (4, EmptyDir), (2, AbsentChild), (1, DeepAbsent)]);
                s = choose(t, ctx, sw, raw.a, raw.b);
                let dw = weighted(raw.mode2, &[(10, AbsentChild), (3, File), (2, NonRootDir), (2, DeepAbsent), (1, BelowFile), (1, Any)]);
                d = choose(t, ctx, dw, raw.c, raw.d);
                if s.is_empty() || d.is_empty() || t.is_file(&s) || is_within(&d, &s) {
                    return Op::Exists(s);
                }
            } else {
                s = choose(t, ctx, weighted(raw.mode, &[(3, Existing), (2, Any), (2, NonRootDir)]), raw.a, raw.b);
                d = choose(t, ctx, weighted(raw.mode2, &[(3, AbsentChild), (2, Existing), (2, Any)]), raw.c, raw.d);
                if is_within(&d, &s) {
                    // the one exclusion of C13: documented non-termination
                    return Op::Exists(s);
                }
            }
            if kind == 17 {
                Op::CopyDir(s, d)
            } else {
                Op::MoveDir(s, d)
            }
        }
        _ => {
            let p = choose(t, ctx, weighted(raw.mode, &[(6, File), (5, NonRootDir), (1, AbsentChild), (1, Dir)]), raw.a, raw.b);
            let field = match raw.mode2 % 3 {
                0 => TimeField::Created,
                1 => TimeField::Modified,
                _ => TimeField::Accessed,
            };
            // the unrestricted profile (C13) also sets times at the edges of the representable range
            if !typed && raw.mode2 % 8 == 5 {
                let secs = [i64::MAX, i64::MAX - 1, i64::MIN + 1, 253_402_300_800, -62_135_596_800, (1i64 << 33) - 1, u32::MAX as i64 + 1, 0][(raw.c % 8) as usize];
                return Op::SetTime(p, field, secs, [0u32, 999_999_999, 1, 500_000_000][(raw.d % 4) as usize]);
            }
            Op::SetTime(p, field, 1_000_000 + raw.c as i64 * 977, (raw.d as u32) * 15_000)
        }
    }
}

/// Is this resolved op a "wrong-typed" call in state `t` (file call on a directory or
/// directory call on a file, or something below a file)?
pub fn is_wrong_typed(t: &Tree, op: &Op) -> bool {
    let p = op.target();
    match op {
        Op::CreateFile(..) | Op::Append(..) | Op::RemoveFile(_) | Op::Read(_) | Op::ReadToString(_) => t.is_dir(p),
        Op::RemoveDir(_) | Op::ReadDir(_) | Op::WalkDir(_) | Op::RemoveDirAll(_) => t.is_file(p),
        Op::CreateDir(_) => t.is_file(&parent_of(p)),
        Op::CreateDirAll(_) => {
            let mut c = ancestors_of(p);
            c.push(p.to_string());
            c.iter().any(|a| t.is_file(a))
        }
        _ => false,
    }
}

// ---------------------------------------------------------------------------------------------
// configurations
// ---------------------------------------------------------------------------------------------

fn leaf_cfg() -> BoxedStrategy<Cfg> {
    prop_oneof![3 => Just(Cfg::Mem), 2 => Just(Cfg::Phys)].boxed()
}

/// Full grammar, nesting <= `depth`.
pub fn cfg_strategy(depth: u32) -> BoxedStrategy<Cfg> {
    if depth == 0 {
        return leaf_cfg();
    }
    let inner = cfg_strategy(depth - 1);
    let layer = layer_strategy(depth - 1);
    prop_oneof![
        5 => leaf_cfg(),
        4 => (inner, 0usize..=3).prop_map(|(c, d)| Cfg::Alt(Box::new(c), d)),
        6 => proptest::collection::vec(layer, 1..=4).prop_map(Cfg::Ovl),
        1 => (leaf_cfg(), 1usize..=4).prop_map(|(c, n)| Cfg::OvlSub(Box::new(c), n)),
    ]
    .boxed()
}

/// Mostly nesting <= 2; one stack in twelve may nest three adapters (altroot over overlay over
/// altroot, overlay in overlay in overlay, ...).
pub fn cfg_deep() -> BoxedStrategy<Cfg> {
    prop_oneof![11 => cfg_strategy(2), 1 => cfg_strategy(3)].boxed()
}

/// Overlays with the read-only EmbeddedFS (fixture) as a lower layer: "embedded assets that can
/// be overridden at run time".
pub fn emb_overlay_cfg() -> BoxedStrategy<Cfg> {
    prop_oneof![
        4 => Just(Cfg::Ovl(vec![Cfg::Mem, Cfg::Emb])),
        1 => Just(Cfg::Ovl(vec![Cfg::Phys, Cfg::Emb])),
        2 => Just(Cfg::Ovl(vec![Cfg::Mem, Cfg::Mem, Cfg::Emb])),
        1 => Just(Cfg::Ovl(vec![Cfg::Mem, Cfg::Emb, Cfg::Mem])),
        1 => Just(Cfg::Alt(Box::new(Cfg::Ovl(vec![Cfg::Mem, Cfg::Emb])), 0)),
        1 => Just(Cfg::Ovl(vec![Cfg::Alt(Box::new(Cfg::Mem), 1), Cfg::Emb])),
    ]
    .boxed()
}

/// `base`, and now and then an overlay over the embedded fixture
pub fn with_emb(base: BoxedStrategy<Cfg>) -> BoxedStrategy<Cfg> {
    prop_oneof![12 => base, 1 => emb_overlay_cfg()].boxed()
}

/// A layer of an overlay: mostly a plain backend, sometimes a nested stack.
pub fn layer_strategy(depth: u32) -> BoxedStrategy<Cfg> {
    if depth == 0 {
        return leaf_cfg();
    }
    prop_oneof![7 => leaf_cfg(), 3 => cfg_strategy(depth)].boxed()
}

/// Only overlays at the top (possibly behind an altroot), `min_layers..=4` layers.
pub fn overlay_cfg_strategy(min_layers: usize, depth: u32) -> BoxedStrategy<Cfg> {
    let layer = layer_strategy(depth.saturating_sub(1));
    let ovl = proptest::collection::vec(layer, min_layers..=4).prop_map(Cfg::Ovl);
    let sub = (leaf_cfg(), min_layers..=4).prop_map(|(c, n)| Cfg::OvlSub(Box::new(c), n));
    prop_oneof![
        6 => ovl.clone(),
        1 => (ovl, 0usize..=2).prop_map(|(c, d)| Cfg::Alt(Box::new(c), d)),
        2 => sub,
    ]
    .boxed()
}

// ---------------------------------------------------------------------------------------------
// pre-population (type-consistent across layers)
// ---------------------------------------------------------------------------------------------

#[derive(Clone, Debug, PartialEq)]
pub struct RawEntry {
    /// name indices for each level (length = depth of the entry)
    pub comps: Vec<u16>,
    pub is_dir: bool,
    /// bit i set = present in layer i (at least one bit is forced)
    pub mask: u8,
    /// per-layer content differs if bit set in `vary`
    pub vary: u8,
    pub data: DataSpec,
}

pub fn prepop_strategy(max_entries: usize) -> impl Strategy<Value = Vec<RawEntry>> {
    proptest::collection::vec(
        (proptest::collection::vec(any::<u16>(), 1..=3), any::<bool>(), any::<u8>(), any::<u8>(), data_strategy())
            .prop_map(|(comps, is_dir, mask, vary, data)| RawEntry { comps, is_dir, mask, vary, data }),
        0..=max_entries,
    )
}

/// Turn raw entries into a type-consistent Prepop for `nlayers` layers.
/// A path gets one type (first entry wins); ancestors are directories; if a prefix of the path is
/// already a file the entry is dropped. Lower-biased: masks are rotated so that lower layers get
/// content at least as often as the upper one.
pub fn make_prepop(raw: &[RawEntry], pool: &[String], depth: usize, nlayers: usize) -> Prepop {
    let n = nlayers.max(1);
    let mut types: BTreeMap<String, bool> = BTreeMap::new(); // path -> is_dir
    let mut out: Prepop = vec![];
    let mut shadowed: std::collections::BTreeSet<(usize, String)> = Default::default();
    for e in raw {
        let mut p = String::new();
        let mut okay = true;
        for (lvl, c) in e.comps.iter().enumerate() {
            if lvl >= depth {
                break;
            }
            if types.get(&p).map(|d| !*d).unwrap_or(false) {
                okay = false;
                break;
            }
            p.push('/');
            p.push_str(&pool[idx(*c, pool.len())]);
        }
        if !okay || p.is_empty() {
            continue;
        }
        if types.get(&p).map(|d| !*d).unwrap_or(false) && e.is_dir {
            continue;
        }
        if types.contains_key(&p) {
            continue;
        }
        // all ancestors become dirs
        let mut bad = false;
        for a in ancestors_of(&p) {
            if a.is_empty() {
                continue;
            }
            match types.get(&a) {
                Some(false) => bad = true,
                _ => {
                    types.insert(a, true);
                }
            }
        }
        if bad {
            continue;
        }
        types.insert(p.clone(), e.is_dir);
        let mut mask = e.mask as usize % (1 << n);
        if mask == 0 {
            mask = 1 << (e.vary as usize % n);
        }
        let mut placed: Vec<usize> = vec![];
        for li in 0..n {
            if mask & (1 << li) == 0 {
                continue;
            }
            // below a shadowed file (see below) this layer cannot hold anything
            if ancestors_of(&p).iter().any(|a| shadowed.contains(&(li, a.clone()))) {
                continue;
            }
            placed.push(li);
            let node = if e.is_dir {
                Node::Dir
            } else {
                let mut d = e.data.clone();
                if e.vary & (1 << li) != 0 {
                    d.seed = d.seed.wrapping_add(li as u8 + 1);
                    d.len = d.len.wrapping_add(li as u16);
                }
                // keep most pre-populated files small, one in twelve gets a boundary / large size
                d.kind = if d.seed % 12 == 5 { 19 + d.kind % 9 } else { 7 + d.kind % 12 };
                Node::File(make_bytes(&d))
            };
            out.push((li, p.clone(), node));
        }
        // A directory whose name is a FILE in one deeper layer (one directory in eight): the
        // first layer that has the path decides its type, so the union is still unambiguous -
        // the file is shadowed, the directory's children are merged from the layers where it is
        // a directory (also from layers below the shadowed file).
        if e.is_dir && n >= 2 && e.vary & 0xE0 == 0xE0 {
            if let Some(top) = placed.first().copied() {
                let cands: Vec<usize> = (top + 1..n).filter(|j| !placed.contains(j) && !ancestors_of(&p).iter().any(|a| shadowed.contains(&(*j, a.clone())))).collect();
                if !cands.is_empty() {
                    let j = cands[(e.mask as usize / 16) % cands.len()];
                    let mut d = e.data.clone();
                    d.kind = 7 + d.kind % 12;
                    out.push((j, p.clone(), Node::File(make_bytes(&d))));
                    shadowed.insert((j, p.clone()));
                }
            }
        }
    }
    out
}

/// paths that exist only in layers with index >= 1
pub fn lower_only_paths(prepop: &Prepop, nlayers: usize) -> Vec<String> {
    let n = nlayers.max(1);
    let mut upper: std::collections::BTreeSet<String> = Default::default();
    let mut lower: std::collections::BTreeSet<String> = Default::default();
    for (li, p, _) in prepop {
        let anc: Vec<String> = ancestors_of(p).into_iter().filter(|a| !a.is_empty()).collect();
        if li % n == 0 {
            upper.insert(p.clone());
            upper.extend(anc);
        } else {
            lower.insert(p.clone());
            lower.extend(anc);
        }
    }
    lower.difference(&upper).cloned().collect()
}

/// paths present in two or more layers
pub fn multi_layer_paths(prepop: &Prepop, nlayers: usize) -> Vec<String> {
    let n = nlayers.max(1);
    let mut count: BTreeMap<String, std::collections::BTreeSet<usize>> = BTreeMap::new();
    for (li, p, _) in prepop {
        count.entry(p.clone()).or_default().insert(li % n);
        for a in ancestors_of(p) {
            if !a.is_empty() {
                count.entry(a).or_default().insert(li % n);
            }
        }
    }
    count.into_iter().filter(|(_, s)| s.len() >= 2).map(|(p, _)| p).collect()
}
