//! Byte-level decoders shared by the cargo-fuzz targets and `check fuzzreplay`: raw fuzzer
//! bytes are turned into the same structured cases the proptest checks use, and judged by the
//! same oracles (the semantic oracle sits inside the target).

use crate::config::Cfg;
use crate::gen::*;
use crate::handles::*;
use crate::hist::*;
use crate::props::{c06, c14};

pub struct Bytes<'a> {
    d: &'a [u8],
    i: usize,
}

impl<'a> Bytes<'a> {
    pub fn new(d: &'a [u8]) -> Bytes<'a> {
        Bytes { d, i: 0 }
    }
    pub fn u8(&mut self) -> u8 {
        let v = self.d.get(self.i).copied().unwrap_or(0);
        self.i += 1;
        v
    }
    pub fn u16(&mut self) -> u16 {
        (self.u8() as u16) << 8 | self.u8() as u16
    }
    pub fn left(&self) -> usize {
        self.d.len().saturating_sub(self.i)
    }
    pub fn rest(&mut self) -> &'a [u8] {
        let r = &self.d[self.i.min(self.d.len())..];
        self.i = self.d.len();
        r
    }
}

/// memory-backed stacks only: no process-external state, every iteration starts fresh
fn mem_cfg(b: &mut Bytes, depth: u8) -> Cfg {
    let k = b.u8();
    if depth == 0 {
        return Cfg::Mem;
    }
    match k % 8 {
        0..=2 => Cfg::Mem,
        3 => Cfg::Alt(Box::new(mem_cfg(b, depth - 1)), (k / 8 % 4) as usize),
        4..=6 => {
            let n = 1 + (k / 8 % 3) as usize;
            Cfg::Ovl((0..n).map(|_| mem_cfg(b, depth - 1)).collect())
        }
        _ => Cfg::OvlSub(Box::new(Cfg::Mem), 2 + (k / 8 % 2) as usize),
    }
}

fn data(b: &mut Bytes) -> DataSpec {
    let mut d = DataSpec { kind: b.u8(), len: b.u16(), seed: b.u8() };
    // keep fuzz iterations fast: cap the rare very large contents
    if (25..=27).contains(&(d.kind % 32)) {
        d.kind = 19;
    }
    d
}

fn rawop(b: &mut Bytes) -> RawOp {
    RawOp { kind: b.u8(), mode: b.u8(), a: b.u16(), b: b.u16(), mode2: b.u8(), c: b.u16(), d: b.u16(), data: data(b) }
}

/// fuzz_join: first byte = number of base components, then components, then the argument
pub fn join_case(d: &[u8]) -> Result<(), String> {
    let mut b = Bytes::new(d);
    let nb = (b.u8() % 4) as usize;
    let names = ["a", "b.c", "é", "x"];
    let base: Vec<&str> = (0..nb).map(|_| names[(b.u8() % 4) as usize]).collect();
    let split = b.u8() as usize;
    let rest = String::from_utf8_lossy(b.rest()).into_owned();
    let cut = rest.char_indices().map(|(i, _)| i).nth(split % (rest.chars().count() + 1)).unwrap_or(rest.len());
    let (arg, arg2) = rest.split_at(cut);
    let r = c06::Roots::new();
    let base_arg = base.join("/");
    c06::check_pair(&r, &base_arg, arg).map(|_| ())?;
    c06::check_composition(&r, &base_arg, arg, arg2)
}

/// fuzz_ops: stack shape + pre-population + history, judged by the C01 contract oracle
pub fn ops_case(d: &[u8]) -> Result<(), String> {
    let mut b = Bytes::new(d);
    let cfg = mem_cfg(&mut b, 2);
    let pool_sel = b.u8();
    let pools: [&[&str]; 4] = [&["a", "ab", "b"], &["a", "a.b", "ü", ".h"], &["a", "b", "c", "a b"], &["a", "日本", "e.", "-", "ab"]];
    let pool: Vec<String> = pools[(pool_sel % 4) as usize].iter().map(|s| s.to_string()).collect();
    let depth = 2 + (pool_sel / 4 % 3);
    let npre = (b.u8() % 8) as usize;
    let mut prepop = vec![];
    for _ in 0..npre {
        let nc = 1 + (b.u8() % 3) as usize;
        prepop.push(RawEntry { comps: (0..nc).map(|_| b.u16()).collect(), is_dir: b.u8() % 2 == 0, mask: b.u8(), vary: b.u8(), data: data(&mut b) });
    }
    let mut ops = vec![];
    while b.left() >= 8 && ops.len() < 40 {
        ops.push(rawop(&mut b));
    }
    let case = HistCase { pool, depth, cfg, prepop, ops };
    let mut opts = HistOpts::new(Profile::Typed);
    opts.contract = true;
    let ex = crate::findings::hist_excluder("C01");
    let mut st = crate::engine::Stats::default();
    run_hist(&case, &opts, &*ex, &mut st).map(|_| ()).map_err(|f| f.message)
}

/// fuzz_handles: read or write script on a memory-backed stack or EmbeddedFS, judged against Cursor
pub fn handles_case(d: &[u8]) -> Result<(), String> {
    let mut b = Bytes::new(d);
    let which = b.u8();
    let cfg = mem_cfg(&mut b, 1);
    let content = data(&mut b);
    let in_lower = b.u8() % 2 == 0;
    let mut st = crate::engine::Stats::default();
    let off = |b: &mut Bytes| Off { anchor: b.u8(), delta: b.u8() as i8 };
    let whence = |b: &mut Bytes| match b.u8() % 3 {
        0 => Whence::Start,
        1 => Whence::Current,
        _ => Whence::End,
    };
    if which % 2 == 0 {
        let embedded = if which % 8 == 0 { Some(b.u16()) } else { None };
        let mut script = vec![];
        while b.left() >= 3 && script.len() < 40 {
            script.push(match b.u8() % 13 {
                0..=5 => ROp::Read(b.u8(), b.u16()),
                6..=9 => ROp::Seek(whence(&mut b), off(&mut b)),
                10 => ROp::ReadToEnd(b.u8()),
                11 => ROp::Drain(b.u8()),
                _ => ROp::ReadExact(b.u8(), b.u16()),
            });
        }
        c14::test_read(&c14::ReadCase { cfg, embedded, content, in_lower, script }, &mut st, false).map_err(|f| f.message)
    } else {
        let append = which % 4 == 1;
        let mut script = vec![];
        while b.left() >= 4 && script.len() < 16 {
            script.push(match b.u8() % 7 {
                0..=3 => WOp::Write(data(&mut b)),
                4 | 5 => WOp::Seek(whence(&mut b), off(&mut b)),
                _ => WOp::Flush,
            });
        }
        let mut second = vec![];
        let split = b.u8();
        while b.left() >= 4 && second.len() < 6 {
            second.push(match b.u8() % 7 {
                0..=3 => WOp::Write(data(&mut b)),
                4 | 5 => WOp::Seek(whence(&mut b), off(&mut b)),
                _ => WOp::Flush,
            });
        }
        c14::test_write(&c14::WriteCase { cfg, initial: content, append, in_lower, script, second, split }, &mut st, false).map_err(|f| f.message)
    }
}

pub fn replay(target: &str, data: &[u8]) -> Result<(), String> {
    match target {
        "fuzz_join" => join_case(data),
        "fuzz_ops" => ops_case(data),
        "fuzz_handles" => handles_case(data),
        _ => Err(format!("unknown fuzz target '{}'", target)),
    }
}
