//! The embedded fixture (C18, also used by C13/C14).

#[derive(rust_embed::RustEmbed, Debug)]
#[folder = "../fixture_embed"]
pub struct Fixture;

/// a second, unrelated embedded folder: two embedded types live in one process
#[derive(rust_embed::RustEmbed, Debug)]
#[folder = "../fixture_embed2"]
pub struct Fixture2;

pub fn fixture2_dir() -> std::path::PathBuf {
    crate::engine::verif_dir().join("fixture_embed2")
}

pub fn fixture_dir() -> std::path::PathBuf {
    crate::engine::verif_dir().join("fixture_embed")
}

/// independent model of the fixture: raw std::fs walk of the fixture folder
pub fn fixture_tree() -> crate::model::Tree {
    tree_of_dir(&fixture_dir())
}

pub fn fixture2_tree() -> crate::model::Tree {
    tree_of_dir(&fixture2_dir())
}

fn tree_of_dir(dir: &std::path::Path) -> crate::model::Tree {
    use crate::model::{Node, Tree};
    fn walk(dir: &std::path::Path, prefix: &str, t: &mut Tree) {
        let mut entries: Vec<_> = std::fs::read_dir(dir).unwrap().filter_map(|e| e.ok()).collect();
        entries.sort_by_key(|e| e.file_name());
        for e in entries {
            let name = e.file_name().to_string_lossy().into_owned();
            let p = format!("{}/{}", prefix, name);
            let ft = e.file_type().unwrap();
            if ft.is_dir() {
                t.m.insert(p.clone(), Node::Dir);
                walk(&e.path(), &p, t);
            } else {
                t.m.insert(p, Node::File(std::sync::Arc::new(std::fs::read(e.path()).unwrap())));
            }
        }
    }
    let mut t = Tree::new();
    walk(dir, "", &mut t);
    t
}
