//! The embedded fixture (C18, also used by C13/C14).

#[derive(rust_embed::RustEmbed, Debug)]
#[folder = "../fixture_embed"]
pub struct Fixture;

pub fn fixture_dir() -> std::path::PathBuf {
    crate::engine::verif_dir().join("fixture_embed")
}
