//! The embedded fixture (C18, also used by C13/C14).

#[derive(rust_embed::RustEmbed, Debug)]
#[folder = "../fixture_embed"]
pub struct Fixture;

pub fn fixture_dir() -> std::path::PathBuf {
    crate::engine::verif_dir().join("fixture_embed")
}

/// independent model of the fixture: raw std::fs walk of the fixture folder
pub fn fixture_tree() -> crate::model::Tree {
    use crate::model::{Node, Tree};
    fn walk(dir: &std::path::Path, prefix: &str, t: &mut Tree) {
        let mut entries: Vec<_> = std::fs::read_dir(dir).unwrap().filter_map(|e| e.ok()).collect();
        entries.sort_by_key(|e| e.file_name());
        for e in entries {
            let name = e.file_name().to_string_lossy().into_owned();
            let p = format!("{}/{}", prefix, name);
            let ft = e.file_type().unwrap();
            if ft.is_dir() {
                t.m.insert(p.clone(), Node::Dir);
                walk(&e.path(), &p, t);
            } else {
                t.m.insert(p, Node::File(std::sync::Arc::new(std::fs::read(e.path()).unwrap())));
            }
        }
    }
    let mut t = Tree::new();
    walk(&fixture_dir(), "", &mut t);
    t
}
