//! C11 — recursive and transfer operations are exact, within and across filesystems.

use crate::config::*;
use crate::engine::*;
use crate::exec::*;
use crate::gen::*;
use crate::hist::{entry_from_json, entry_to_json, rawop_from_json, rawop_to_json};
use crate::model::*;
use crate::observe::*;
use crate::util::guarded;
use proptest::prelude::*;
use serde_json::{json, Value};

#[derive(Clone, Debug)]
pub struct Case {
    pub pool: Vec<String>,
    pub cfg_a: Cfg,
    pub cfg_b: Cfg,
    /// 0 = same instance, 1 = second instance of cfg_a, 2 = instance of cfg_b
    pub pairing: u8,
    pub tree_a: Vec<RawEntry>,
    pub tree_b: Vec<RawEntry>,
    /// (op, from-side bit, to-side bit)
    pub ops: Vec<(RawOp, bool, bool)>,
}

fn strategy() -> impl Strategy<Value = Case> {
    (
        pool_strategy(),
        cfg_strategy(1),
        cfg_strategy(1),
        0u8..3,
        prepop_strategy(14),
        prepop_strategy(5),
        proptest::collection::vec((rawop_strategy(), any::<bool>(), any::<bool>()), 1..=12),
    )
        .prop_map(|(pool, cfg_a, cfg_b, pairing, tree_a, tree_b, ops)| Case { pool, cfg_a, cfg_b, pairing, tree_a, tree_b, ops })
}

fn tree_of(prepop: &Prepop) -> Tree {
    union_model(prepop, 1)
}

/// Resolve a C11 op: only the six operations of the property.
fn resolve11(raw: &RawOp, src: &Tree, dst: &Tree, ctx: &Ctx, same: bool) -> Op {
    use Want::*;
    let pick = |t: &Tree, table: &[(u8, Want)], mode: u8, i: u16, j: u16| -> String {
        let total: u32 = table.iter().map(|(w, _)| *w as u32).sum();
        let mut x = (mode as u32 * total) >> 8;
        let mut want = table[0].1;
        for (w, wa) in table {
            if x < *w as u32 {
                want = *wa;
                break;
            }
            x -= *w as u32;
        }
        choose(t, ctx, want, i, j)
    };
    let dest_table = [(10u8, AbsentChild), (3, File), (2, NonRootDir), (2, DeepAbsent), (1, BelowFile)];
    match raw.kind % 11 {
        // copies must be independent of their source: later writes to one side are part of the game
        10 => {
            let f = pick(src, &[(1, File)], raw.mode, raw.a, raw.b);
            if src.is_file(&f) {
                Op::Append(f, make_bytes(&raw.data))
            } else {
                Op::Exists(f)
            }
        }
        0 => Op::CreateDirAll(pick(src, &[(8, DeepAbsent), (3, AbsentChild), (2, NonRootDir), (2, BelowFile), (1, File)], raw.mode, raw.a, raw.b)),
        1 => {
            let p = pick(src, &[(7, NonEmptyDir), (3, EmptyDir), (3, AbsentChild), (1, DeepAbsent)], raw.mode, raw.a, raw.b);
            if p.is_empty() {
                Op::Exists(p)
            } else {
                Op::RemoveDirAll(p)
            }
        }
        2 | 3 | 4 | 5 => {
            let s = pick(src, &[(12, File), (1, AbsentChild)], raw.mode, raw.a, raw.b);
            let d = pick(dst, &dest_table, raw.mode2, raw.c, raw.d);
            if s.is_empty() || d.is_empty() || src.is_dir(&s) {
                return Op::Exists(s);
            }
            if raw.kind % 11 <= 3 {
                Op::CopyFile(s, d)
            } else {
                Op::MoveFile(s, d)
            }
        }
        _ => {
            // across two instances the source may be the root directory itself (copy only:
            // moving it would remove the root)
            let s = if same {
                pick(src, &[(9, NonEmptyDir), (3, EmptyDir), (1, AbsentChild)], raw.mode, raw.a, raw.b)
            } else {
                pick(src, &[(8, NonEmptyDir), (3, EmptyDir), (1, AbsentChild), (3, Dir)], raw.mode, raw.a, raw.b)
            };
            let d = pick(dst, &dest_table, raw.mode2, raw.c, raw.d);
            if d.is_empty() || src.is_file(&s) || (same && is_within(&d, &s)) || (s.is_empty() && same) {
                return Op::Exists(s);
            }
            if s.is_empty() {
                return Op::CopyDir(s, d);
            }
            if raw.kind % 11 <= 7 {
                Op::CopyDir(s, d)
            } else {
                Op::MoveDir(s, d)
            }
        }
    }
}

struct Pred2 {
    expect: Expect,
    /// None = unspecified (re-synchronise)
    src_after: Option<Tree>,
    dst_after: Option<Tree>,
}

fn predict_cross(src: &Tree, dst: &Tree, op: &Op) -> Pred2 {
    let same = |e: Expect| Pred2 { expect: e, src_after: Some(src.clone()), dst_after: Some(dst.clone()) };
    match op {
        Op::CopyFile(s, d) | Op::MoveFile(s, d) => {
            if dst.exists(d) {
                return same(Expect::Err(ErrReq::Any));
            }
            match src.get(s) {
                Some(Node::File(b)) => {
                    if !dst.is_dir(&parent_of(d)) {
                        return Pred2 { expect: Expect::Err(ErrReq::Any), src_after: None, dst_after: None };
                    }
                    let mut nd = dst.clone();
                    nd.m.insert(d.clone(), Node::File(b.clone()));
                    let mut ns = src.clone();
                    if matches!(op, Op::MoveFile(..)) {
                        ns.m.remove(s);
                    }
                    Pred2 { expect: Expect::Ok(Val::Unit), src_after: Some(ns), dst_after: Some(nd) }
                }
                Some(Node::Dir) => Pred2 { expect: Expect::Unspecified, src_after: None, dst_after: None },
                None => Pred2 { expect: Expect::Err(ErrReq::Any), src_after: None, dst_after: None },
            }
        }
        Op::CopyDir(s, d) | Op::MoveDir(s, d) => {
            if dst.exists(d) {
                return same(Expect::Err(ErrReq::Any));
            }
            match src.get(s) {
                Some(Node::Dir) => {
                    if !dst.is_dir(&parent_of(d)) {
                        return Pred2 { expect: Expect::Err(ErrReq::Any), src_after: None, dst_after: None };
                    }
                    let mut nd = dst.clone();
                    nd.copy_subtree_to(src, s, d);
                    let mut ns = src.clone();
                    let is_move = matches!(op, Op::MoveDir(..));
                    if is_move {
                        ns.remove_subtree(s);
                    }
                    let v = if is_move { Val::Unit } else { Val::Count(src.descendants(s).len() as u64) };
                    Pred2 { expect: Expect::Ok(v), src_after: Some(ns), dst_after: Some(nd) }
                }
                Some(Node::File(_)) => Pred2 { expect: Expect::Unspecified, src_after: None, dst_after: None },
                None => Pred2 { expect: Expect::Err(ErrReq::Any), src_after: None, dst_after: None },
            }
        }
        _ => unreachable!(),
    }
}

fn test(case: &Case, st: &mut Stats, counting: bool) -> CaseResult {
    let mut trace: Vec<String> = vec![];
    let mut facts = (0usize, false, false, false, 0usize); // transfers ok, src>=2 levels, empty dir, file>=8K, refused
    let pool = {
        let mut p = case.pool.clone();
        if case.cfg_a.contains_overlay() || case.cfg_b.contains_overlay() {
            for n in p.iter_mut() {
                crate::gen::cut_name(n, 200);
            }
        }
        p.dedup();
        p
    };
    let r = guarded(|| -> Result<(), (usize, String)> {
        let e0 = |m: String| (0usize, m);
        let depth = 3usize;
        let uni = universe(&pool, depth);
        let ctx = Ctx { pool: &pool, depth, uni: &uni };
        // source trees get some larger binary files
        let mut ra = case.tree_a.clone();
        for (i, e) in ra.iter_mut().enumerate() {
            if i % 4 == 1 {
                e.data.kind = 19 + (e.data.kind % 6);
            }
        }
        let pa = make_prepop(&ra, &pool, depth, 1);
        let pb = make_prepop(&case.tree_b, &pool, depth, 1);
        let mut prep_a: Prepop = pa.clone();
        // make_prepop shrinks files to small sizes; restore a few big ones deterministically
        for (i, (_, _, n)) in prep_a.iter_mut().enumerate() {
            if let Node::File(_) = n {
                if i % 4 == 1 {
                    *n = Node::File(make_bytes(&DataSpec { kind: 19 + (i as u8 % 6), len: i as u16 * 37, seed: i as u8 }));
                }
            }
        }
        // most cases get a guaranteed rich subtree: two levels, an empty directory, a file >= 8 KiB
        if case.pairing != 255 && case.tree_a.len() % 4 != 0 && pool.len() >= 3 {
            let t = tree_of(&prep_a);
            let top = format!("/{}", pool[case.tree_a.len() % pool.len()]);
            if !t.is_file(&top) {
                let mid = format!("{}/{}", top, pool[1]);
                let extra: Vec<(String, Node)> = vec![
                    (mid.clone(), Node::Dir),
                    (format!("{}/{}", mid, pool[2]), Node::Dir),
                    (format!("{}/{}", mid, pool[0]), Node::File(make_bytes(&DataSpec { kind: 20, len: 3, seed: 1 }))),
                    (format!("{}/{}", top, pool[2]), Node::File(make_bytes(&DataSpec { kind: 9, len: 5, seed: 2 }))),
                ];
                for (p, n) in extra {
                    let anc_ok = ancestors_of(&p).iter().all(|a| !t.is_file(a));
                    if !t.exists(&p) && anc_ok {
                        prep_a.push((0, p, n));
                    }
                }
            }
        }
        let a = build(&case.cfg_a, &vec![]).map_err(e0)?;
        for (_, p, n) in &prep_a {
            write_entry(&a.root, p, n).map_err(e0)?;
        }
        let same = case.pairing == 0;
        let b = if same {
            None
        } else {
            let cfg = if case.pairing == 1 { &case.cfg_a } else { &case.cfg_b };
            let b = build(cfg, &vec![]).map_err(e0)?;
            for (_, p, n) in &pb {
                write_entry(&b.root, p, n).map_err(e0)?;
            }
            Some(b)
        };
        let roots = [a.root.clone(), b.as_ref().map(|b| b.root.clone()).unwrap_or_else(|| a.root.clone())];
        let mut models = [tree_of(&prep_a), if same { tree_of(&prep_a) } else { tree_of(&pb) }];
        for (i, r) in roots.iter().enumerate() {
            let s = full_snapshot(r, &uni);
            if s.tree != models[i] || !s.problems.is_empty() {
                return Err(e0(format!("setup of side {} differs from its model: {:?} {:?}", i, diff_trees(&models[i], &s.tree), s.problems)));
            }
        }
        for (i, (raw, fbit, tbit)) in case.ops.iter().enumerate() {
            let step = i + 1;
            let (from, to) = if same { (0usize, 0usize) } else { (*fbit as usize, *tbit as usize) };
            let op = resolve11(raw, &models[from], &models[to], &ctx, same || from == to);
            let within = same || from == to || op.dest().is_none();
            let to = if op.dest().is_none() { from } else { to };
            let out = exec2(&roots[from], &roots[to], &op);
            trace.push(format!("[{}->{}] {} -> {}", from, to, op.render(), out.render()));
            if let Outcome::Panic(m) = &out {
                return Err((step, format!("{} panicked: {}", op.render(), m)));
            }
            let (expect, src_after, dst_after) = if within || op.dest().is_none() {
                let p = predict(&models[from], &op);
                let after = match p.effect {
                    Effect::Same => Some(models[from].clone()),
                    Effect::New(t) => Some(if out.is_ok() { t } else { models[from].clone() }),
                    Effect::Unspecified => None,
                };
                (p.expect, after.clone(), after)
            } else {
                let p = predict_cross(&models[from], &models[to], &op);
                if out.is_ok() {
                    (p.expect, p.src_after, p.dst_after)
                } else {
                    let unspec = p.src_after.is_none();
                    (p.expect, if unspec { None } else { Some(models[from].clone()) }, if unspec { None } else { Some(models[to].clone()) })
                }
            };
            judge(&expect, &out).map_err(|m| (step, format!("{}: {}", op.render(), m)))?;
            if op.dest().is_some() {
                if out.is_ok() {
                    facts.0 += 1;
                    if let Op::CopyDir(s, _) | Op::MoveDir(s, _) = &op {
                        let desc = models[from].descendants(s);
                        if desc.iter().any(|d| depth_of(d) >= depth_of(s) + 2) {
                            facts.1 = true;
                        }
                        if desc.iter().any(|d| models[from].is_dir(d) && !models[from].has_children(d)) {
                            facts.2 = true;
                        }
                        if desc.iter().any(|d| matches!(models[from].get(d), Some(Node::File(b)) if b.len() >= 8192)) {
                            facts.3 = true;
                        }
                    }
                } else if matches!(expect, Expect::Err(_)) && dst_after.is_some() {
                    facts.4 += 1;
                }
            }
            // full snapshots of both sides
            let sf = full_snapshot(&roots[from], &uni);
            let sto = if within { sf.clone() } else { full_snapshot(&roots[to], &uni) };
            for (name, s) in [("source side", &sf), ("destination side", &sto)] {
                if !s.problems.is_empty() {
                    return Err((step, format!("after {}: {} inconsistent: {:?}", op.render(), name, s.problems.iter().take(3).collect::<Vec<_>>())));
                }
                if let Err(m) = s.tree.well_formed() {
                    return Err((step, format!("after {}: {}: {}", op.render(), name, m)));
                }
            }
            match (src_after, dst_after) {
                (Some(sa), Some(da)) => {
                    if sf.tree != sa {
                        return Err((step, format!("after {}: source filesystem is not as specified ({}): {:?}", op.render(), if out.is_ok() { "copy must leave the source untouched, move must leave no trace" } else { "refused call must have no side effects" }, diff_trees(&sa, &sf.tree))));
                    }
                    if sto.tree != da {
                        return Err((step, format!("after {}: destination filesystem is not as specified ({}): {:?}", op.render(), if out.is_ok() { "byte- and structure-identical copy" } else { "refused call must have no side effects" }, diff_trees(&da, &sto.tree))));
                    }
                    models[from] = sa;
                    if !within {
                        models[to] = da;
                    }
                }
                _ => {
                    models[from] = sf.tree.clone();
                    if !within {
                        models[to] = sto.tree.clone();
                    }
                }
            }
            if same {
                models[1] = models[0].clone();
            }
        }
        Ok(())
    });
    let mk = |step: usize, msg: String| Failure {
        message: format!("A = {} | B = {} | step {}: {}\n  trace:\n    {}", case.cfg_a.render(), match case.pairing { 0 => "same instance".to_string(), 1 => format!("second instance of {}", case.cfg_a.render()), _ => case.cfg_b.render() }, step, msg, trace.join("\n    ")),
        replay: json!({"kind": "c11", "case": case_to_json(case), "failing_step": step}),
    };
    match r {
        Err(p) => Err(mk(0, format!("PANIC: {}", p))),
        Ok(Err((step, m))) => Err(mk(step, m)),
        Ok(Ok(())) => {
            if counting {
                let nt = facts.1 && facts.2 && facts.3;
                st.label(&format!("pair:{}", match case.pairing { 0 => "same_instance", 1 => "two_instances_one_backend", _ => "two_backends" }));
                if case.pairing == 2 {
                    st.label(&format!("pairkinds:{}->{}", case.cfg_a.top(), case.cfg_b.top()));
                }
                st.label_n("transfers_ok", facts.0 as u64);
                st.label_n("transfers_refused_no_side_effect_checked", facts.4 as u64);
                if nt {
                    st.nontrivial.insert(crate::util::fnv(serde_json::to_string(&case_to_json(case)).unwrap().as_bytes()));
                    if case.pairing != 0 {
                        st.label("nontrivial_cross_instance");
                    }
                }
                st.sample(json!({"A": case.cfg_a.render(), "B": case.pairing, "history": trace.iter().take(10).collect::<Vec<_>>()}), nt);
            }
            Ok(())
        }
    }
}

fn case_to_json(c: &Case) -> Value {
    json!({
        "pool": c.pool, "cfg_a": c.cfg_a.to_json(), "cfg_b": c.cfg_b.to_json(), "pairing": c.pairing,
        "tree_a": c.tree_a.iter().map(entry_to_json).collect::<Vec<_>>(),
        "tree_b": c.tree_b.iter().map(entry_to_json).collect::<Vec<_>>(),
        "ops": c.ops.iter().map(|(r, f, t)| json!([rawop_to_json(r), f, t])).collect::<Vec<_>>(),
    })
}

fn case_from_json(v: &Value) -> Option<Case> {
    Some(Case {
        pool: v.get("pool")?.as_array()?.iter().filter_map(|x| x.as_str().map(|s| s.to_string())).collect(),
        cfg_a: Cfg::from_json(v.get("cfg_a")?)?,
        cfg_b: Cfg::from_json(v.get("cfg_b")?)?,
        pairing: v.get("pairing")?.as_u64()? as u8,
        tree_a: v.get("tree_a")?.as_array()?.iter().filter_map(entry_from_json).collect(),
        tree_b: v.get("tree_b")?.as_array()?.iter().filter_map(entry_from_json).collect(),
        ops: v.get("ops")?.as_array()?.iter().filter_map(|o| {
            let a = o.as_array()?;
            Some((rawop_from_json(a.first()?)?, a.get(1)?.as_bool()?, a.get(2)?.as_bool()?))
        }).collect(),
    })
}

// ---------------------------------------------------------------------------------------------
// deep chains: recursion depth far beyond what the name-pool universes reach
// ---------------------------------------------------------------------------------------------

#[derive(Clone, Debug)]
pub struct DeepCase {
    pub cfg_a: Cfg,
    pub cfg_b: Cfg,
    pub depth_sel: u8,
    pub back: u8,
    pub file_every: u8,
    pub op: u8,
}

const DEPTH_EDGES: [usize; 12] = [8, 16, 32, 40, 41, 48, 64, 100, 128, 129, 200, 256];

fn deep_strategy() -> impl Strategy<Value = DeepCase> {
    (cfg_strategy(1), cfg_strategy(1), any::<u8>(), 0u8..3, 1u8..9, 0u8..6).prop_map(|(cfg_a, cfg_b, depth_sel, back, file_every, op)| DeepCase { cfg_a, cfg_b, depth_sel, back, file_every, op })
}

fn deep_json(c: &DeepCase) -> Value {
    json!({"kind": "c11-deep", "cfg_a": c.cfg_a.to_json(), "cfg_b": c.cfg_b.to_json(), "depth_sel": c.depth_sel, "back": c.back, "file_every": c.file_every, "op": c.op})
}

fn test_deep(case: &DeepCase, st: &mut Stats, counting: bool) -> CaseResult {
    let mut depth = DEPTH_EDGES[crate::util::idx((case.depth_sel as u16) << 8, DEPTH_EDGES.len())].saturating_sub(case.back as usize);
    // keep physical paths and overlay marker paths well inside PATH_MAX
    if case.cfg_a.contains_phys() || case.cfg_b.contains_phys() {
        depth = depth.min(129);
    }
    let mut what = String::new();
    let r = guarded(|| -> Result<(), String> {
        let a = build(&case.cfg_a, &vec![])?;
        let b = build(&case.cfg_b, &vec![])?;
        // the source: /s/n/n/.../n with a file 'f' on every file_every-th level and at the bottom
        let mut model = Tree::new();
        model.m.clear();
        let mut p = String::from("/s");
        model.m.insert(p.clone(), Node::Dir);
        for lvl in 1..=depth {
            p.push_str("/n");
            model.m.insert(p.clone(), Node::Dir);
            if lvl % case.file_every as usize == 0 || lvl == depth {
                model.m.insert(format!("{}/f", p), Node::File(std::sync::Arc::new(format!("level {}", lvl).into_bytes())));
            }
        }
        at(&a.root, &p).map_err(|e| e.to_string())?.create_dir_all().map_err(|e| format!("create_dir_all of a chain of depth {} failed: {}", depth, e))?;
        for (k, n) in model.m.iter() {
            if let Node::File(bytes) = n {
                use std::io::Write;
                at(&a.root, k).map_err(|e| e.to_string())?.create_file().map_err(|e| e.to_string())?.write_all(bytes).map_err(|e| e.to_string())?;
            }
        }
        let mut src0 = snapshot(&a.root).tree;
        src0.m.remove("");
        if src0 != model {
            return Err(format!("building a chain of depth {}: the tree differs from what was created: {:?}", depth, diff_trees(&model, &src0)));
        }
        let snap = |r: &vfs::VfsPath| -> Tree {
            let mut t = snapshot(r).tree;
            t.m.remove("");
            t
        };
        let rebased = |to: &str| -> Tree {
            let mut t = Tree::new();
            t.m.clear();
            for (k, n) in model.m.iter() {
                t.m.insert(format!("{}{}", to, &k[2..]), n.clone());
            }
            t
        };
        let s = at(&a.root, "/s").map_err(|e| e.to_string())?;
        // copy_dir counts the entries below the source
        let total = model.m.len() - 1;
        match case.op {
            0 => {
                what = format!("walk_dir over a chain of depth {}", depth);
                let mut seen = std::collections::BTreeSet::new();
                for item in s.walk_dir().map_err(|e| e.to_string())? {
                    let item = item.map_err(|e| format!("{}: error item {}", what, e))?;
                    if !seen.insert(item.as_str().to_string()) {
                        return Err(format!("{}: '{}' yielded twice", what, item.as_str()));
                    }
                }
                let expect: std::collections::BTreeSet<String> = model.m.keys().filter(|k| k.as_str() != "/s").cloned().collect();
                if seen != expect {
                    return Err(format!("{}: yielded {} of {} entries; first missing: {:?}", what, seen.len(), expect.len(), expect.difference(&seen).next()));
                }
            }
            1 | 2 => {
                let cross = case.op == 2;
                what = format!("copy_dir of a chain of depth {} {}", depth, if cross { "to another filesystem" } else { "within one filesystem" });
                let droot = if cross { &b.root } else { &a.root };
                let d = at(droot, "/t").map_err(|e| e.to_string())?;
                let n = s.copy_dir(&d).map_err(|e| format!("{} failed: {}", what, e))?;
                if n as usize != total {
                    return Err(format!("{}: returned {} but the source has {} entries", what, n, total));
                }
                let mut expect_d = rebased("/t");
                if !cross {
                    expect_d.m.extend(model.m.clone());
                }
                let got = snap(droot);
                if got != expect_d {
                    return Err(format!("{}: destination differs: {:?}", what, diff_trees(&expect_d, &got).into_iter().take(4).collect::<Vec<_>>()));
                }
                if cross && snap(&a.root) != model {
                    return Err(format!("{}: the source changed", what));
                }
            }
            3 | 4 => {
                let cross = case.op == 4;
                what = format!("move_dir of a chain of depth {} {}", depth, if cross { "to another filesystem" } else { "within one filesystem" });
                let droot = if cross { &b.root } else { &a.root };
                let d = at(droot, "/t").map_err(|e| e.to_string())?;
                s.move_dir(&d).map_err(|e| format!("{} failed: {}", what, e))?;
                let got = snap(droot);
                let expect_d = rebased("/t");
                if got != expect_d {
                    return Err(format!("{}: destination differs: {:?}", what, diff_trees(&expect_d, &got).into_iter().take(4).collect::<Vec<_>>()));
                }
                if cross && !snap(&a.root).m.is_empty() {
                    return Err(format!("{}: the source filesystem still holds {:?}", what, snap(&a.root).m.keys().take(3).collect::<Vec<_>>()));
                }
            }
            _ => {
                what = format!("remove_dir_all of a chain of depth {}", depth);
                s.remove_dir_all().map_err(|e| format!("{} failed: {}", what, e))?;
                let got = snap(&a.root);
                if !got.m.is_empty() {
                    return Err(format!("{}: left {:?} behind", what, got.m.keys().take(3).collect::<Vec<_>>()));
                }
            }
        }
        Ok(())
    });
    let fail = |m: String| Failure { message: format!("stacks {} / {} | {}", case.cfg_a.render(), case.cfg_b.render(), m), replay: deep_json(case) };
    match r {
        Err(p) => Err(fail(format!("PANIC: {}", p))),
        Ok(Err(m)) => Err(fail(m)),
        Ok(Ok(())) => {
            if counting {
                st.label("deep_chain_cases");
                st.label(&format!("deep_chain:{}", what.split(" of ").next().unwrap_or("").split(" over ").next().unwrap_or("")));
                if depth > 40 {
                    st.label("deep_chain_deeper_than_40");
                    st.nontrivial.insert(crate::util::fnv_str(&format!("{:?}", case)));
                }
            }
            Ok(())
        }
    }
}

pub fn replay(v: &Value) -> CaseResult {
    if v.get("kind").and_then(|k| k.as_str()) == Some("c11-deep") {
        let g = |k: &str| v.get(k).and_then(|x| x.as_u64()).unwrap_or(0) as u8;
        let case = DeepCase {
            cfg_a: Cfg::from_json(v.get("cfg_a").unwrap_or(&Value::Null)).unwrap_or(Cfg::Mem),
            cfg_b: Cfg::from_json(v.get("cfg_b").unwrap_or(&Value::Null)).unwrap_or(Cfg::Mem),
            depth_sel: g("depth_sel"),
            back: g("back"),
            file_every: g("file_every").max(1),
            op: g("op"),
        };
        let mut st = Stats::default();
        return test_deep(&case, &mut st, false);
    }
    let case = case_from_json(v.get("case").unwrap_or(&Value::Null)).ok_or_else(|| Failure { message: "unparsable C11 replay".into(), replay: v.clone() })?;
    let mut st = Stats::default();
    test(&case, &mut st, false)
}

const RULE: &str = "source trees (depth<=3, fan-out<=5, empty directories, binary files up to 20 KiB) on filesystem A, destinations on B, (A,B) drawn from: same instance / two instances of one backend / two different backends-adapters (Mem, Phys, altroot, overlay incl. sub-path layers); ops create_dir_all, remove_dir_all, copy_file, move_file, copy_dir, move_dir (plus appends, so that a copy aliasing its source shows) in both directions with destinations that are free, occupied, or lack a (directory) parent; oracle = two tree models and full snapshots of BOTH filesystems after every op: copy = identical subtree at the destination + untouched source + returned entry count, move = same + no trace of the source, existing destination refused with both snapshots unchanged; non-trivial = a directory transfer whose source has >=2 levels, an empty directory and a file >= 8 KiB; PLUS deep chains: a single directory chain of depth 6..256 (edges 8,16,32,40,41,48,64,100,128,129,200,256 minus 0..2; at most 129 on physical stacks) with files on every k-th level: walk_dir yields every entry exactly once, copy_dir / move_dir (within one filesystem and to another one) reproduce it exactly and report the right count, remove_dir_all leaves nothing";

pub fn run(ctx: &RunCtx) -> i32 {
    let reg = crate::regress::run_for(&ctx.id, &replay);
    if let Some((path, msg)) = &reg.violation {
        println!("--- regression input fails ---\n{}", msg);
        println!("VIOLATION property={} replay={}", ctx.id, path);
        return 1;
    }
    let (mut stats, mut failure) = run_sharded(ctx, "transfer", ctx.tier.pick(6000, 300_000), strategy, test);
    if failure.is_none() {
        let (s2, f2) = run_sharded(ctx, "deep", ctx.tier.pick(400, 12_000), deep_strategy, test_deep);
        stats.merge(s2);
        failure = f2;
    }
    write_evidence(ctx, "exploration", RULE, &stats, json!({"regress_replayed": reg.replayed}), &["copy_dir/move_dir into the source's own subtree and wrong-typed transfer sources are not generated", "a transfer that fails for a missing/non-directory destination parent or missing source re-synchronises the models (effect unspecified), but both trees must stay well-formed"], failure.is_some() as u32);
    finish(ctx, &stats, &failure, &[("distinct_nontrivial", 30), ("pair:same_instance", 100), ("pair:two_instances_one_backend", 100), ("pair:two_backends", 100), ("nontrivial_cross_instance", 10), ("deep_chain_deeper_than_40", 50)])
}
