//! C15 — the async port behaves like the sync API (lock-step differential, Pending plans).

use crate::asyncfs::*;
use crate::config::*;
use crate::engine::*;
use crate::exec::*;
use crate::gen::*;
use crate::handles::*;
use crate::hist::*;
use crate::model::*;
use crate::observe::*;
use futures::FutureExt;
use proptest::prelude::*;
use serde_json::{json, Value};
use std::io::{Read, Seek};
use std::panic::AssertUnwindSafe;
use std::sync::atomic::Ordering;

#[derive(Clone, Debug)]
pub struct Case {
    pub base: HistCase,
    pub scripts: Vec<Vec<ROp>>,
    pub plan_seed: u64,
}

fn strategy(untyped: bool) -> impl Strategy<Value = Case> {
    let _ = untyped;
    let cfgs = if std::env::var("VV_C15_MEMONLY").is_ok() { Just(Cfg::Ovl(vec![Cfg::Mem, Cfg::Mem])).boxed() } else { cfg_strategy(2) };
    (
        hist_strategy(cfgs, 28, 8),
        proptest::collection::vec(proptest::collection::vec(rop_strategy(), 1..12), 0..3),
        any::<u64>(),
    )
        .prop_map(|(mut base, scripts, plan_seed)| {
            // the async physical backend hops to a blocking pool on every call (~40x slower):
            // keep it in one of five of the stacks that contain it, with shorter histories
            if base.cfg.contains_phys() {
                if plan_seed % 5 != 0 {
                    base.cfg = demote_phys(&base.cfg);
                } else {
                    base.ops.truncate(14);
                }
            }
            Case { base, scripts, plan_seed }
        })
}

/// the leaf backend that receives writes
fn upper_leaf(c: &Cfg) -> Cfg {
    match c {
        Cfg::Alt(i, _) | Cfg::OvlSub(i, _) => upper_leaf(i),
        Cfg::Ovl(ls) => upper_leaf(&ls[0]),
        other => other.clone(),
    }
}

fn demote_phys(c: &Cfg) -> Cfg {
    match c {
        Cfg::Mem | Cfg::Phys | Cfg::Emb => Cfg::Mem,
        Cfg::Alt(i, d) => Cfg::Alt(Box::new(demote_phys(i)), *d),
        Cfg::Ovl(ls) => Cfg::Ovl(ls.iter().map(demote_phys).collect()),
        Cfg::OvlSub(i, n) => Cfg::OvlSub(Box::new(demote_phys(i)), *n),
    }
}

fn rt() -> tokio::runtime::Runtime {
    tokio::runtime::Builder::new_current_thread().build().expect("tokio runtime")
}

async fn guarded_aexec(root: &vfs::async_vfs::AsyncVfsPath, op: &Op) -> Outcome {
    match AssertUnwindSafe(aexec(root, op)).catch_unwind().await {
        Ok(o) => o,
        Err(_) => Outcome::Panic("panic inside the async call (see hook)".into()),
    }
}

fn same_outcome(s: &Outcome, a: &Outcome) -> Result<(), String> {
    match (s, a) {
        (_, Outcome::Panic(m)) => Err(format!("async call panicked: {}", m)),
        (Outcome::Panic(m), _) => Err(format!("sync call panicked: {}", m)),
        (Outcome::Ok(x), Outcome::Ok(y)) => {
            let same = match (x, y) {
                (Val::Walk(p), Val::Walk(q)) => {
                    let (mut p2, mut q2) = (p.clone(), q.clone());
                    p2.sort();
                    q2.sort();
                    if let Err(m) = walk_order_ok(q) {
                        return Err(format!("async walk order invalid: {}", m));
                    }
                    p2 == q2
                }
                _ => x == y,
            };
            if same {
                Ok(())
            } else {
                Err(format!("sync returns {} but async returns {}", render_val(x), render_val(y)))
            }
        }
        (Outcome::Err(x), Outcome::Err(y)) => {
            if x.class != y.class {
                Err(format!("error classes differ: sync {:?} ({}) vs async {:?} ({})", x.class, x.display, y.class, y.display))
            } else {
                Ok(())
            }
        }
        _ => Err(format!("sync: {} but async: {}", s.render(), a.render())),
    }
}

fn sync_script(root: &vfs::VfsPath, path: &str, len: u64, script: &[ROp], extremes: bool) -> Result<Vec<Result<(u64, Vec<u8>), String>>, String> {
    let mut h = at(root, path).map_err(|e| e.to_string())?.open_file().map_err(|e| e.to_string())?;
    let mut out = vec![];
    for op in script {
        match op {
            ROp::Seek(w, o) => {
                let sf = seek_from(w, o, len, extremes, None);
                out.push(h.seek(sf).map(|p| (p, vec![])).map_err(|e| format!("{:?}", e.kind())));
            }
            ROp::ReadToEnd(_) => {
                let mut v = vec![];
                let r = h.read_to_end(&mut v);
                out.push(r.map(|n| (n as u64, v)).map_err(|e| format!("{:?}", e.kind())));
            }
            ROp::Drain(k) => {
                let piece = drain_piece(*k, len);
                let mut v = vec![];
                let mut buf = [0u8; 2048];
                let mut err = None;
                for _ in 0..400_000 {
                    match h.read(&mut buf[..piece]) {
                        Ok(0) => break,
                        Ok(n) => v.extend_from_slice(&buf[..n.min(piece)]),
                        Err(e) => {
                            err = Some(format!("{:?}", e.kind()));
                            break;
                        }
                    }
                }
                out.push(match err {
                    Some(e) => Err(e),
                    None => Ok((v.len() as u64, v)),
                });
            }
            ROp::Read(k, n) | ROp::ReadExact(k, n) => {
                let want = read_size(*k, *n, len as usize);
                let mut buf = vec![0u8; want];
                let mut got = 0;
                let mut err = None;
                while got < want {
                    match h.read(&mut buf[got..]) {
                        Ok(0) => break,
                        Ok(x) => got += x,
                        Err(e) => {
                            err = Some(format!("{:?}", e.kind()));
                            break;
                        }
                    }
                }
                buf.truncate(got);
                out.push(match err {
                    Some(e) => Err(e),
                    None => Ok((got as u64, buf)),
                });
            }
        }
    }
    Ok(out)
}

fn test(case: &Case, st: &mut Stats, counting: bool, nplans: usize, panics_only: bool) -> CaseResult {
    let (pool, depth) = effective(&case.base);
    let uni = universe(&pool, depth);
    let ctx = Ctx { pool: &pool, depth, uni: &uni };
    let nlayers = case.base.cfg.overlay_layers().max(1);
    let prepop = make_prepop(&case.base.prepop, &pool, depth, nlayers);
    let mut trace: Vec<String> = vec![];
    let mut facts = (0usize, 0usize, 0u64, 0u64, 0u64, 0usize, 0u64); // failing calls, deep walks, pend rd, pend md, pend total, scripts
    let mut overlap_total = 0u64;
    let mut times_total = 0u64;
    let mut twin_total = 0u64;
    let profile = if panics_only { Profile::Untyped } else { Profile::Typed };
    let runtime = rt();
    let res: Result<(), (usize, String)> = runtime.block_on(async {
        let e0 = |m: String| (0usize, m);
        let s = build(&case.base.cfg, &prepop).map_err(e0)?;
        let a = abuild(&case.base.cfg, &prepop, None).await.map_err(e0)?;
        let mut plans = vec![];
        let mut ps = vec![];
        // async-std's physical backend hops to a blocking pool on every call: fewer twins there
        let nplans = if case.base.cfg.contains_phys() { nplans.min(2) } else { nplans };
        for i in 0..nplans {
            let plan = PendPlan::new(crate::util::mix(case.plan_seed, i as u64));
            ps.push(abuild(&case.base.cfg, &prepop, Some(plan.clone())).await.map_err(e0)?);
            plans.push(plan);
        }
        // a second async overlay over the same layers, built before the history (overlays keep
        // their whole state in the layers)
        let atwin: Option<vfs::async_vfs::AsyncVfsPath> = if matches!(case.base.cfg, Cfg::Ovl(_) | Cfg::OvlSub(..)) && !a.layers.is_empty() && !panics_only {
            Some(vfs::async_vfs::AsyncVfsPath::new(vfs::async_vfs::AsyncOverlayFS::new(&a.layers)))
        } else {
            None
        };
        let mut model = snapshot(&s.root).tree;
        {
            let sa = asnapshot(&a.root).await;
            if sa.tree != model {
                return Err(e0(format!("initial async view differs from the sync view: {:?}", diff_trees(&model, &sa.tree))));
            }
        }
        let mut script_i = 0;
        let mut st_open = 0u64;
        let mut st_overlap = 0u64;
        let mut st_times = 0u64;
        let mut twin_views = 0u64;
        // every history ends with a walk over the whole tree (and one in the middle)
        let n_ops = case.base.ops.len();
        let walk_raw = RawOp { kind: 0, mode: 0, a: 0, b: 0, mode2: 1, c: 0, d: 0, data: DataSpec { kind: 0, len: 0, seed: 0 } };
        for i in 0..=n_ops {
            let step = i + 1;
            let forced_walk = i == n_ops || (n_ops >= 8 && i == n_ops / 2);
            let raw = if i < n_ops { &case.base.ops[i] } else { &walk_raw };
            let op = if forced_walk && !panics_only { Op::WalkDir(String::new()) } else { resolve(raw, &model, &ctx, profile, false) };
            if removes_root(&op) && !panics_only {
                continue;
            }
            if matches!(op, Op::SetTime(..)) {
                continue;
            }
            // now and then the two portable timestamp setters, in either order, on an existing
            // entry: same outcomes and the same (modified, accessed) pair in both worlds
            // (the async in-memory backend implements no setters - timestamps are absent from its
            // metadata -, so this is compared where both worlds implement them: physical leaves)
            if raw.mode2 % 16 == 9 && !panics_only && model.m.len() > 1 && upper_leaf(&case.base.cfg) == Cfg::Phys {
                let keys: Vec<&String> = model.m.keys().filter(|k| !k.is_empty()).collect();
                let path = keys[crate::util::idx(raw.c, keys.len())].clone();
                let t_acc = crate::exec::time_of(1_000_000_000 + raw.a as i64 * 1000, (raw.b as u32) * 15_000);
                let t_mod = crate::exec::time_of(1_200_000_000 + raw.b as i64 * 1000, (raw.a as u32) * 15_000);
                let acc_first = raw.mode % 2 == 0;
                let sync_obs = {
                    let vp = at(&s.root, &path).map_err(|e| (step, e.to_string()))?;
                    let (r1, r2) = if acc_first { (vp.set_access_time(t_acc).is_ok(), vp.set_modification_time(t_mod).is_ok()) } else { (vp.set_modification_time(t_mod).is_ok(), vp.set_access_time(t_acc).is_ok()) };
                    (r1, r2, vp.metadata().ok().map(|m| (m.modified, m.accessed)))
                };
                let targets: Vec<&vfs::async_vfs::AsyncVfsPath> = std::iter::once(&a.root).chain(ps.iter().map(|p| &p.root)).collect();
                for t in targets {
                    let vp = aat(t, &path).map_err(|e| (step, e.to_string()))?;
                    let (r1, r2) = if acc_first { (vp.set_access_time(t_acc).await.is_ok(), vp.set_modification_time(t_mod).await.is_ok()) } else { (vp.set_modification_time(t_mod).await.is_ok(), vp.set_access_time(t_acc).await.is_ok()) };
                    let async_obs = (r1, r2, vp.metadata().await.ok().map(|m| (m.modified, m.accessed)));
                    // the memory backends stamp "now" on entries: only compare what was set
                    let same = sync_obs.0 == async_obs.0 && sync_obs.1 == async_obs.1 && (!(sync_obs.0 && sync_obs.1) || sync_obs.2 == async_obs.2);
                    if !same {
                        return Err((step, format!("set_{}_time then set_{}_time on '{}': sync gives (ok, ok, (modified, accessed)) = {:?} but async gives {:?}", if acc_first { "access" } else { "modification" }, if acc_first { "modification" } else { "access" }, path, sync_obs, async_obs)));
                    }
                }
                trace.push(format!("timestamp setters on '{}' ({} first) compared on all twins", path, if acc_first { "access" } else { "modification" }));
                st_times += 1;
                continue;
            }
            // now and then a create session is held open and the file observed meanwhile
            if let (Op::CreateFile(path, bytes), true, false) = (&op, raw.mode2 % 4 == 1, panics_only) {
                let sync_obs = {
                    let vp = at(&s.root, path).map_err(|e| (step, e.to_string()))?;
                    match vp.create_file() {
                        Err(_) => None,
                        Ok(mut h) => {
                            let o = (vp.exists().ok(), vp.metadata().ok().map(|m| m.len), { let mut v = vec![]; vp.open_file().ok().map(|mut f| { let _ = std::io::Read::read_to_end(&mut f, &mut v); v }) });
                            let _ = std::io::Write::write_all(&mut h, bytes);
                            drop(h);
                            Some(o)
                        }
                    }
                };
                let targets: Vec<&vfs::async_vfs::AsyncVfsPath> = std::iter::once(&a.root).chain(ps.iter().map(|p| &p.root)).collect();
                for t in targets {
                    use async_std::io::{ReadExt, WriteExt};
                    let vp = aat(t, path).map_err(|e| (step, e.to_string()))?;
                    let async_obs = match vp.create_file().await {
                        Err(_) => None,
                        Ok(mut h) => {
                            let ex = vp.exists().await.ok();
                            let len = vp.metadata().await.ok().map(|m| m.len);
                            let content = match vp.open_file().await {
                                Ok(mut f) => { let mut v = vec![]; let _ = f.read_to_end(&mut v).await; Some(v) }
                                Err(_) => None,
                            };
                            let _ = h.write_all(bytes).await;
                            let _ = h.flush().await;
                            drop(h);
                            Some((ex, len, content))
                        }
                    };
                    if sync_obs != async_obs {
                        return Err((step, format!("create_file('{}') held open: sync observes (exists, len, bytes) = {:?} but async observes {:?}", path, sync_obs.as_ref().map(|o| (o.0, o.1, o.2.as_ref().map(|b| b.len()))), async_obs.as_ref().map(|o| (o.0, o.1, o.2.as_ref().map(|b| b.len()))))));
                    }
                }
                trace.push(format!("create_file('{}') held open and observed on all twins", path));
                st_open += 1;
                let ss = snapshot(&s.root);
                let sa = asnapshot(&a.root).await;
                if sa.tree != ss.tree {
                    return Err((step, format!("after open-handle create session on '{}': async tree differs from sync tree: {:?}", path, diff_trees(&ss.tree, &sa.tree))));
                }
                model = ss.tree;
                continue;
            }
            // ... and now and then an append session OVERLAPS another complete call on the same
            // file (a second append session, a re-creation, a removal) before it writes
            if let (Op::Append(path, bytes), true, false) = (&op, raw.mode2 % 4 == 2, panics_only) {
                let other = make_bytes(&DataSpec { kind: raw.data.kind.wrapping_add(3), len: raw.data.len / 2 + 1, seed: raw.data.seed.wrapping_add(9) });
                // (on an overlay a removal under an open session leaves the re-published file behind
                // its own whiteout marker: a state of the known session finding KF-3 in which later
                // recursive removals fail half-way in listing order - not generated there)
                let mid = if raw.mode % 4 == 2 && case.base.cfg.contains_overlay() { 3 } else { raw.mode % 4 };
                let mid_name = ["a second append session", "create_file + write", "remove_file", "nothing"][mid as usize];
                let mut sync_mid: Option<Tree> = None;
                let sync_opened = {
                    use std::io::Write;
                    let vp = at(&s.root, path).map_err(|e| (step, e.to_string()))?;
                    match vp.append_file() {
                        Err(_) => false,
                        Ok(mut h) => {
                            match mid {
                                0 => {
                                    if let Ok(mut h2) = vp.append_file() {
                                        let _ = h2.write_all(&other);
                                    }
                                }
                                1 => {
                                    if let Ok(mut h2) = vp.create_file() {
                                        let _ = h2.write_all(&other);
                                    }
                                }
                                2 => {
                                    let _ = vp.remove_file();
                                }
                                _ => {}
                            }
                            // what is visible while the first session is still open
                            sync_mid = Some(snapshot(&s.root).tree);
                            let _ = h.write_all(bytes);
                            let _ = h.flush();
                            drop(h);
                            true
                        }
                    }
                };
                let ss = snapshot(&s.root);
                let targets: Vec<&vfs::async_vfs::AsyncVfsPath> = std::iter::once(&a.root).chain(ps.iter().map(|p| &p.root)).collect();
                for t in targets {
                    use async_std::io::WriteExt;
                    let vp = aat(t, path).map_err(|e| (step, e.to_string()))?;
                    let async_opened = match vp.append_file().await {
                        Err(_) => false,
                        Ok(mut h) => {
                            match mid {
                                0 => {
                                    if let Ok(mut h2) = vp.append_file().await {
                                        let _ = h2.write_all(&other).await;
                                        let _ = h2.flush().await;
                                    }
                                }
                                1 => {
                                    if let Ok(mut h2) = vp.create_file().await {
                                        let _ = h2.write_all(&other).await;
                                        let _ = h2.flush().await;
                                    }
                                }
                                2 => {
                                    let _ = vp.remove_file().await;
                                }
                                _ => {}
                            }
                            if let Some(sm) = &sync_mid {
                                let am = asnapshot(t).await;
                                if &am.tree != sm {
                                    return Err((step, format!("append session on '{}' still open, after {} ({} bytes): async tree differs from sync tree: {:?}", path, mid_name, other.len(), diff_trees(sm, &am.tree))));
                                }
                            }
                            let _ = h.write_all(bytes).await;
                            let _ = h.flush().await;
                            drop(h);
                            true
                        }
                    };
                    if sync_opened != async_opened {
                        return Err((step, format!("append_file('{}') handle: sync {} but async {}", path, if sync_opened { "opens" } else { "fails" }, if async_opened { "opens" } else { "fails" })));
                    }
                    let sa = asnapshot(t).await;
                    if sa.tree != ss.tree {
                        return Err((step, format!("append session on '{}' ({} bytes) overlapping {} ({} bytes): async tree differs from sync tree: {:?}", path, bytes.len(), mid_name, other.len(), diff_trees(&ss.tree, &sa.tree))));
                    }
                }
                trace.push(format!("append_file('{}') session overlapping {} on all twins", path, mid_name));
                if sync_opened {
                    st_overlap += 1;
                }
                model = ss.tree;
                continue;
            }
            let os = exec(&s.root, &op);
            let oa = guarded_aexec(&a.root, &op).await;
            trace.push(format!("{} -> sync {} / async {}", op.render(), os.class_str(), oa.class_str()));
            if panics_only {
                if let Outcome::Panic(m) = &oa {
                    return Err((step, format!("async {} PANIC: {}", op.render(), m)));
                }
            } else {
                same_outcome(&os, &oa).map_err(|m| (step, format!("{}: {}", op.render(), m)))?;
            }
            if !os.is_ok() {
                facts.0 += 1;
            }
            if let (Op::WalkDir(p), Outcome::Ok(Val::Walk(items))) = (&op, &os) {
                if items.iter().any(|x| depth_of(x) >= depth_of(p) + 2) {
                    facts.1 += 1;
                }
            }
            for (pi, p) in ps.iter().enumerate() {
                let before = (plans[pi].pends_read_dir.load(Ordering::Relaxed), plans[pi].pends_metadata.load(Ordering::Relaxed));
                let op_out = guarded_aexec(&p.root, &op).await;
                if matches!(op, Op::WalkDir(_)) {
                    facts.2 += plans[pi].pends_read_dir.load(Ordering::Relaxed) - before.0;
                    facts.3 += plans[pi].pends_metadata.load(Ordering::Relaxed) - before.1;
                }
                if panics_only {
                    if let Outcome::Panic(m) = &op_out {
                        return Err((step, format!("async {} under a Pending plan PANIC: {}", op.render(), m)));
                    }
                } else {
                    same_outcome(&os, &op_out).map_err(|m| (step, format!("{} under Pending plan #{}: {}", op.render(), pi, m)))?;
                }
            }
            // identical observable trees
            let ss = snapshot(&s.root);
            if !panics_only {
                let sa = asnapshot(&a.root).await;
                if sa.tree != ss.tree {
                    return Err((step, format!("after {}: async tree differs from sync tree: {:?} {:?}", op.render(), diff_trees(&ss.tree, &sa.tree), sa.problems.iter().take(2).collect::<Vec<_>>())));
                }
                if let Some(tw) = &atwin {
                    let st2 = asnapshot(tw).await;
                    if st2.tree != ss.tree {
                        return Err((step, format!("after {}: a second async overlay over the same layers (built before the history) differs from the sync tree: {:?}", op.render(), diff_trees(&ss.tree, &st2.tree))));
                    }
                    twin_views += 1;
                }
                for (pi, p) in ps.iter().enumerate() {
                    let sp = asnapshot(&p.root).await;
                    if sp.tree != ss.tree {
                        return Err((step, format!("after {}: async tree under Pending plan #{} differs from the sync tree: {:?}", op.render(), pi, diff_trees(&ss.tree, &sp.tree))));
                    }
                }
            }
            model = ss.tree;
            // reader scripts on async read handles
            if raw.mode2 % 3 == 0 && script_i < case.scripts.len() {
                let files = model.files();
                if !files.is_empty() {
                    let f = files[crate::util::idx(raw.c, files.len())].clone();
                    let len = match model.get(&f) {
                        Some(Node::File(b)) => b.len() as u64,
                        _ => 0,
                    };
                    // seeks to the ends of the offset range (u64::MAX - k, i64::MAX, i64::MIN) included
                    let extremes = true;
                    let sres = sync_script(&s.root, &f, len, &case.scripts[script_i], extremes).map_err(|m| (step, m))?;
                    let targets: Vec<&vfs::async_vfs::AsyncVfsPath> = std::iter::once(&a.root).chain(ps.iter().map(|p| &p.root)).collect();
                    for (ti, t) in targets.iter().enumerate() {
                        let r = AssertUnwindSafe(async {
                            let mut h = aat(t, &f).map_err(|e| e.to_string())?.open_file().await.map_err(|e| e.to_string())?;
                            Ok::<_, String>(arun_read_script(&mut *h, len, &case.scripts[script_i], extremes).await)
                        })
                        .catch_unwind()
                        .await;
                        let ares = match r {
                            Err(_) => return Err((step, format!("async read handle of '{}' PANIC during a read/seek script", f))),
                            Ok(Err(m)) => return Err((step, format!("async open_file('{}') failed: {}", f, m))),
                            Ok(Ok(v)) => v,
                        };
                        if !panics_only {
                            for (k, (x, y)) in sres.iter().zip(ares.iter()).enumerate() {
                                let same = match (x, y) {
                                    (Ok(a), Ok(b)) => a == b,
                                    (Err(_), Err(_)) => true,
                                    _ => false,
                                };
                                if !same {
                                    return Err((step, format!("read handle of '{}' (len {}), script op #{} {:?}: sync gives {:?} but async{} gives {:?}", f, len, k, case.scripts[script_i][k], x.as_ref().map(|(p, b)| (*p, b.len())), if ti > 0 { " (Pending plan)" } else { "" }, y.as_ref().map(|(p, b)| (*p, b.len())))));
                                }
                            }
                        }
                    }
                    trace.push(format!("read script on '{}' compared on {} async handles", f, targets.len()));
                    script_i += 1;
                    facts.5 += 1;
                }
            }
        }
        for p in &plans {
            facts.4 += p.pends_total.load(Ordering::Relaxed);
        }
        facts.6 = st_open;
        overlap_total = st_overlap;
        times_total = st_times;
        twin_total = twin_views;
        Ok(())
    });
    drop(runtime);
    let mk = |step: usize, msg: String| Failure {
        message: format!("stack {} | step {}: {}\n  trace:\n    {}", case.base.cfg.render(), step, msg, trace.join("\n    ")),
        replay: json!({"kind": "c15", "case": case.base.to_json(), "scripts": case.scripts.iter().map(|s| rops_to_json(s)).collect::<Vec<_>>(), "plan_seed": case.plan_seed, "nplans": nplans, "panics_only": panics_only, "failing_step": step}),
    };
    match res {
        Err((step, m)) => Err(mk(step, m)),
        Ok(()) => {
            if counting {
                let nt = facts.0 >= 1 && facts.1 >= 1 && facts.2 >= 1 && facts.3 >= 1;
                st.label(&format!("cfg:{}", case.base.cfg.top()));
                st.label_n("ops_compared", trace.len() as u64);
                st.label_n("pending_returns_injected", facts.4);
                st.label_n("pending_in_walk_read_dir_futures", facts.2);
                st.label_n("pending_in_walk_metadata_futures", facts.3);
                st.label_n("reader_scripts_compared", facts.5 as u64);
                st.label_n("open_handle_create_sessions_observed", facts.6);
                st.label_n("overlapping_append_sessions", overlap_total);
                st.label_n("timestamp_setter_pairs_compared", times_total);
                st.label_n("second_async_overlay_views_compared", twin_total);
                if nt {
                    st.nontrivial.insert(crate::util::fnv(serde_json::to_string(&case.base.to_json()).unwrap().as_bytes()) ^ case.plan_seed);
                }
                st.sample(json!({"stack": case.base.cfg.render(), "plans": nplans, "history": trace.iter().take(12).collect::<Vec<_>>()}), nt);
            }
            Ok(())
        }
    }
}

/// Known finding (open): dropping an AsyncMemoryFS write handle inside futures::executor::block_on
/// panics (the Drop impl itself calls futures::executor::block_on).
fn futures_drop_repro() -> CaseResult {
    let r = crate::util::guarded(|| {
        futures::executor::block_on(async {
            let root = vfs::async_vfs::AsyncVfsPath::new(vfs::async_vfs::AsyncMemoryFS::new());
            let f = root.join("f").unwrap().create_file().await.unwrap();
            drop(f);
        })
    });
    match r {
        Ok(()) => Ok(()),
        Err(m) => Err(Failure { message: format!("dropping an async MemoryFS write handle under futures::executor::block_on PANIC: {}", m), replay: json!({"kind": "c15-futures-drop"}) }),
    }
}

pub fn replay(v: &Value) -> CaseResult {
    if v.get("kind").and_then(|k| k.as_str()) == Some("c15-futures-drop") {
        return futures_drop_repro();
    }
    if v.get("kind").and_then(|k| k.as_str()) == Some("c15-siblings") {
        let case = SibCase {
            cfg: Cfg::from_json(v.get("cfg").unwrap_or(&Value::Null)).unwrap_or(Cfg::Ovl(vec![Cfg::Mem, Cfg::Mem])),
            mask: v.get("mask").and_then(|x| x.as_u64()).unwrap_or(0) as u16,
            kind: v.get("op").and_then(|x| x.as_u64()).unwrap_or(0) as u8,
            in_lower: v.get("in_lower").and_then(|x| x.as_bool()).unwrap_or(false),
        };
        let mut st = Stats::default();
        return with_stdout_silenced(|| test_sib(&case, &mut st, false));
    }
    if v.get("kind").and_then(|k| k.as_str()) == Some("c15-times") {
        let case = TimesCase {
            cfg: Cfg::from_json(v.get("cfg").unwrap_or(&Value::Null)).unwrap_or(Cfg::Phys),
            on_dir: v.get("on_dir").and_then(|x| x.as_bool()).unwrap_or(false),
            calls: v.get("calls").and_then(|x| x.as_array()).map(|a| a.iter().filter_map(|c| Some((c.get(0)?.as_bool()?, c.get(1)?.as_u64()? as u16, c.get(2)?.as_u64()? as u16))).collect()).unwrap_or_default(),
        };
        let mut st = Stats::default();
        return with_stdout_silenced(|| test_times(&case, &mut st, false));
    }
    if v.get("kind").and_then(|k| k.as_str()) == Some("c15-own-layer") {
        let case = OwnCase {
            cfg: Cfg::from_json(v.get("cfg").unwrap_or(&Value::Null)).unwrap_or(Cfg::Ovl(vec![Cfg::Mem, Cfg::Mem])),
            data: crate::hist::data_from_json(v.get("data").unwrap_or(&Value::Null)).unwrap_or(DataSpec { kind: 8, len: 3, seed: 0 }),
            layer: v.get("layer").and_then(|x| x.as_u64()).unwrap_or(0) as u8,
            kind: v.get("op").and_then(|x| x.as_u64()).unwrap_or(0) as u8,
        };
        let mut st = Stats::default();
        return with_stdout_silenced(|| test_own(&case, &mut st, false));
    }
    if v.get("kind").and_then(|k| k.as_str()) == Some("c15-walkrm") {
        let case = walkrm_from_json(v).ok_or_else(|| Failure { message: "unparsable c15-walkrm replay".into(), replay: v.clone() })?;
        let po = v.get("panics_only").and_then(|x| x.as_bool()).unwrap_or(false);
        let mut st = Stats::default();
        return with_stdout_silenced(|| test_walkrm(&case, &mut st, false, po));
    }
    let base = HistCase::from_json(v.get("case").unwrap_or(&Value::Null)).ok_or_else(|| Failure { message: "unparsable C15 replay".into(), replay: v.clone() })?;
    let scripts = v.get("scripts").and_then(|s| s.as_array()).map(|a| a.iter().map(rops_from_json).collect()).unwrap_or_default();
    let case = Case { base, scripts, plan_seed: v.get("plan_seed").and_then(|x| x.as_u64()).unwrap_or(0) };
    let nplans = v.get("nplans").and_then(|x| x.as_u64()).unwrap_or(3) as usize;
    let panics_only = v.get("panics_only").and_then(|x| x.as_bool()).unwrap_or(false);
    let mut st = Stats::default();
    with_stdout_silenced(|| test(&case, &mut st, false, nplans, panics_only))
}

/// part (f) of C13: untyped histories and reader scripts through the async port, only panics count
pub fn panic_part(ctx: &RunCtx) -> (Stats, Option<Failure>) {
    let n = ctx.tier.pick(500, 20_000);
    let (mut stats, failure) = with_stdout_silenced(|| {
        run_sharded(ctx, "async-panics", n, || strategy(true), |c, st, counting| {
            let mut tmp = Stats::default();
            let r = test(c, &mut tmp, counting, 1, true);
            if counting {
                st.label("async_cases");
                st.label_n("async_ops", tmp.get("ops_compared"));
            }
            r
        })
    });
    stats.label("async_part_ran");
    let mut failure = failure;
    if failure.is_none() {
        let (s2, f2) = walkrm_part(ctx, ctx.tier.pick(1500, 30_000), true);
        stats.merge(s2);
        failure = f2;
    }
    (stats, failure)
}

const RULE: &str = "typed C01/C09 histories vec(op,0..=28) on every stack available in both worlds (Mem, Phys, altroot, overlay incl. sub-path layers, nesting<=2, pre-populated layers) executed in lock-step on the sync stack, its async twin, and N further async twins whose leaf filesystems are wrapped in PendFS (every trait future and every read_dir stream item returns Pending 0..3 times per a generated plan; N=3 quick, 8 thorough); per call: same Ok/Err, same error class, equal values (walk results as multisets, async order must be parent-before-child); after every call identical full snapshots; read/seek scripts on async read handles compared call by call with the sync handles; create sessions held open and observed meanwhile; the two portable timestamp setters on physical-backed stacks, in histories and in a directed part with 1..4 setter calls in any order (same outcomes and same (modified, accessed) pair after every call; the async in-memory backend implements no setters); on overlays a second async overlay over the same layers must show the sync tree after every step; append sessions that overlap a second append session / a re-creation / a removal of the same file before they write (same resulting trees); tokio current-thread runtime; PLUS one call on a file F (append, create, copy, move, remove, copy_dir of its directory) while entries with look-alike names exist beside it (F.part, F.tmp, F~, .F.swp, … 16 decorations): in both worlds every such sibling keeps its bytes and the trees agree; PLUS transfers between an overlay and its OWN layers (copy_file / move_file / copy_dir / move_dir from the overlay into its upper layer - manual copy-up -, from its lowest layer into the overlay, into a second overlay instance over the same layers): same outcome, same overlay tree, same layer trees in both worlds; PLUS walk_dir streams (sync, async, async under a Pending plan) over generated trees with a directory removed after k items were pulled: the stream must terminate, yield no entry twice, yield every entry outside the removed directory, name only vanished entries in its error items and report each of them at most once, like the sync iterator; non-trivial = history with >=1 failing call and >=1 walk over >=2 nested directories, under a plan that returned Pending inside a read_dir future and inside a metadata future of that walk";

// ---------------------------------------------------------------------------------------------
// an operation on F must not touch entries whose names merely resemble F (temporaries an
// implementation might use: F.part, F.tmp, F~, .F.swp, ...)
// ---------------------------------------------------------------------------------------------

pub const SIBLING_DECOR: [(&str, &str); 16] = [("", ".part"), ("", ".tmp"), ("", "~"), ("", ".bak"), (".", ".swp"), ("", ".lock"), ("", ".new"), ("", ".old"), ("", ".partial"), ("", ".copy"), ("", ".orig"), ("", "_tmp"), ("#", "#"), ("", ".0"), (".", ""), ("", ".download")];

#[derive(Clone, Debug)]
pub struct SibCase {
    pub cfg: Cfg,
    pub mask: u16,
    pub kind: u8,
    pub in_lower: bool,
}

fn sib_strategy() -> impl Strategy<Value = SibCase> {
    let cfgs = prop_oneof![
        3 => Just(Cfg::Ovl(vec![Cfg::Mem, Cfg::Mem])),
        1 => Just(Cfg::Ovl(vec![Cfg::Mem, Cfg::Mem, Cfg::Mem])),
        1 => Just(Cfg::OvlSub(Box::new(Cfg::Mem), 2)),
        1 => Just(Cfg::Mem),
        1 => Just(Cfg::Alt(Box::new(Cfg::Mem), 1)),
    ];
    (cfgs, any::<u16>(), 0u8..6, any::<bool>()).prop_map(|(cfg, mask, kind, in_lower)| SibCase { cfg, mask, kind, in_lower })
}

fn test_sib(case: &SibCase, st: &mut Stats, counting: bool) -> CaseResult {
    let n = case.cfg.overlay_layers().max(1);
    let li = if case.in_lower && n >= 2 { n - 1 } else { 0 };
    let prepop: Prepop = vec![(li, "/d/F".to_string(), Node::File(std::sync::Arc::new(b"content of F".to_vec())))];
    let sibs: Vec<String> = SIBLING_DECOR.iter().enumerate().filter(|(i, _)| case.mask & (1 << i) != 0).map(|(_, (pre, post))| format!("/d/{}F{}", pre, post)).collect();
    let names = ["append_file(/d/F)", "create_file(/d/F)", "copy_file(/d/F -> /d/G)", "move_file(/d/F -> /d/G)", "remove_file(/d/F)", "copy_dir(/d -> /e)"];
    let what = names[case.kind as usize % names.len()];
    let runtime = rt();
    let res: Result<(), String> = runtime.block_on(async {
        use async_std::io::WriteExt;
        use std::io::Write;
        let s = build(&case.cfg, &prepop)?;
        let a = abuild(&case.cfg, &prepop, None).await?;
        for sib in &sibs {
            at(&s.root, sib).map_err(|e| e.to_string())?.create_file().map_err(|e| e.to_string())?.write_all(sib.as_bytes()).map_err(|e| e.to_string())?;
            let mut h = aat(&a.root, sib).map_err(|e| e.to_string())?.create_file().await.map_err(|e| e.to_string())?;
            h.write_all(sib.as_bytes()).await.map_err(|e| e.to_string())?;
            h.flush().await.map_err(|e| e.to_string())?;
            drop(h);
        }
        let op = match case.kind % 6 {
            0 => Op::Append("/d/F".into(), std::sync::Arc::new(b" + more".to_vec())),
            1 => Op::CreateFile("/d/F".into(), std::sync::Arc::new(b"new".to_vec())),
            2 => Op::CopyFile("/d/F".into(), "/d/G".into()),
            3 => Op::MoveFile("/d/F".into(), "/d/G".into()),
            4 => Op::RemoveFile("/d/F".into()),
            _ => Op::CopyDir("/d".into(), "/e".into()),
        };
        let os = exec(&s.root, &op);
        let oa = guarded_aexec(&a.root, &op).await;
        same_outcome(&os, &oa).map_err(|m| format!("{}: {}", what, m))?;
        let (ts, ta) = (snapshot(&s.root).tree, asnapshot(&a.root).await.tree);
        for (who, t) in [("sync", &ts), ("async", &ta)] {
            for sib in &sibs {
                match t.get(sib) {
                    Some(Node::File(b)) if b.as_slice() == sib.as_bytes() => {}
                    other => return Err(format!("{} with the sibling '{}' present: in the {} world that sibling is now {}", what, sib, who, match other { None => "gone".to_string(), Some(Node::Dir) => "a directory".to_string(), Some(Node::File(b)) => format!("a file of {} bytes with other content", b.len()) })),
                }
            }
        }
        if ts != ta {
            return Err(format!("{}: async tree differs from sync tree: {:?}", what, diff_trees(&ts, &ta)));
        }
        Ok(())
    });
    drop(runtime);
    match res {
        Err(m) => Err(Failure { message: format!("stack {} | {}", case.cfg.render(), m), replay: json!({"kind": "c15-siblings", "cfg": case.cfg.to_json(), "mask": case.mask, "op": case.kind, "in_lower": case.in_lower}) }),
        Ok(()) => {
            if counting {
                st.label("operations_next_to_lookalike_siblings");
                if sibs.len() >= 2 {
                    st.nontrivial.insert(crate::util::fnv_str(&format!("{:?}", case)));
                }
            }
            Ok(())
        }
    }
}

// ---------------------------------------------------------------------------------------------
// timestamp setters on physical-backed stacks (the only ones that implement them in both worlds)
// ---------------------------------------------------------------------------------------------

#[derive(Clone, Debug)]
pub struct TimesCase {
    pub cfg: Cfg,
    pub calls: Vec<(bool, u16, u16)>,
    pub on_dir: bool,
}

fn times_strategy() -> impl Strategy<Value = TimesCase> {
    let cfgs = prop_oneof![
        3 => Just(Cfg::Phys),
        1 => Just(Cfg::Alt(Box::new(Cfg::Phys), 1)),
        1 => Just(Cfg::Ovl(vec![Cfg::Phys, Cfg::Mem])),
        1 => Just(Cfg::OvlSub(Box::new(Cfg::Phys), 2)),
    ];
    (cfgs, proptest::collection::vec((any::<bool>(), any::<u16>(), any::<u16>()), 1..5), any::<bool>()).prop_map(|(cfg, calls, on_dir)| TimesCase { cfg, calls, on_dir })
}

fn times_json(c: &TimesCase) -> Value {
    json!({"kind": "c15-times", "cfg": c.cfg.to_json(), "on_dir": c.on_dir, "calls": c.calls.iter().map(|(m, a, b)| json!([m, a, b])).collect::<Vec<_>>()})
}

fn test_times(case: &TimesCase, st: &mut Stats, counting: bool) -> CaseResult {
    let prepop: Prepop = vec![(0, "/d/f".to_string(), Node::File(std::sync::Arc::new(b"content".to_vec())))];
    let path = if case.on_dir { "/d" } else { "/d/f" };
    let runtime = rt();
    let res: Result<(), String> = runtime.block_on(async {
        let s = build(&case.cfg, &prepop)?;
        let a = abuild(&case.cfg, &prepop, None).await?;
        let sp = at(&s.root, path).map_err(|e| e.to_string())?;
        let ap = aat(&a.root, path).map_err(|e| e.to_string())?;
        // a missing entry of an existing directory: both worlds must classify alike
        {
            let t = crate::exec::time_of(1_000_000_000, 0);
            let (sm, am) = (at(&s.root, "/d/missing").map_err(|e| e.to_string())?, aat(&a.root, "/d/missing").map_err(|e| e.to_string())?);
            for is_mod in [true, false] {
                let (rs, ra) = if is_mod { (sm.set_modification_time(t), am.set_modification_time(t).await) } else { (sm.set_access_time(t), am.set_access_time(t).await) };
                let cls = |r: &vfs::VfsResult<()>| r.as_ref().err().map(|e| crate::exec::classify(e.kind()));
                if cls(&rs) != cls(&ra) {
                    return Err(format!("set_{}_time on the missing entry '/d/missing': sync {:?} but async {:?}", if is_mod { "modification" } else { "access" }, rs.map_err(|e| e.to_string()), ra.map_err(|e| e.to_string())));
                }
            }
        }
        let mut done: Vec<String> = vec![];
        let (mut mod_set, mut acc_set) = (false, false);
        for (is_mod, x, y) in &case.calls {
            let t = crate::exec::time_of(900_000_000 + *x as i64 * 7919, (*y as u32) * 15_000);
            let (rs, ra) = if *is_mod { (sp.set_modification_time(t), ap.set_modification_time(t).await) } else { (sp.set_access_time(t), ap.set_access_time(t).await) };
            done.push(format!("set_{}_time({:?})", if *is_mod { "modification" } else { "access" }, t.duration_since(std::time::UNIX_EPOCH).map(|d| d.as_secs()).unwrap_or(0)));
            if rs.is_ok() != ra.is_ok() {
                return Err(format!("{} on '{}': sync {:?} but async {:?}", done.join(", "), path, rs.map_err(|e| e.to_string()), ra.map_err(|e| e.to_string())));
            }
            let ms = sp.metadata().map_err(|e| e.to_string())?;
            let ma = ap.metadata().await.map_err(|e| e.to_string())?;
            // the two worlds work on two different directories: only fields that were set
            // explicitly are comparable (the others hold each file's own creation moment)
            if *is_mod {
                mod_set = true;
            } else {
                acc_set = true;
            }
            if (mod_set && ms.modified != ma.modified) || (acc_set && ms.accessed != ma.accessed) {
                return Err(format!("after {} on '{}': sync metadata (modified, accessed) = {:?} but async {:?}", done.join(", "), path, (ms.modified, ms.accessed), (ma.modified, ma.accessed)));
            }
        }
        Ok(())
    });
    drop(runtime);
    match res {
        Err(m) => Err(Failure { message: format!("stack {} | {}", case.cfg.render(), m), replay: times_json(case) }),
        Ok(()) => {
            if counting {
                st.label_n("physical_timestamp_setter_calls_compared", case.calls.len() as u64);
                if case.calls.len() >= 2 {
                    st.nontrivial.insert(crate::util::fnv_str(&format!("{:?}", case)));
                }
            }
            Ok(())
        }
    }
}

// ---------------------------------------------------------------------------------------------
// transfers between an overlay and its OWN layers (manual copy-up and the like)
// ---------------------------------------------------------------------------------------------

#[derive(Clone, Debug)]
pub struct OwnCase {
    pub cfg: Cfg,
    pub data: DataSpec,
    pub layer: u8,
    pub kind: u8,
}

fn own_strategy() -> impl Strategy<Value = OwnCase> {
    let cfgs = prop_oneof![
        3 => Just(Cfg::Ovl(vec![Cfg::Mem, Cfg::Mem])),
        2 => Just(Cfg::Ovl(vec![Cfg::Mem, Cfg::Mem, Cfg::Mem])),
        2 => Just(Cfg::OvlSub(Box::new(Cfg::Mem), 2)),
        1 => Just(Cfg::OvlSub(Box::new(Cfg::Mem), 3)),
        1 => Just(Cfg::Ovl(vec![Cfg::Alt(Box::new(Cfg::Mem), 1), Cfg::Mem])),
    ];
    (cfgs, data_strategy(), any::<u8>(), 0u8..8).prop_map(|(cfg, data, layer, kind)| OwnCase { cfg, data, layer, kind })
}

fn own_json(c: &OwnCase) -> Value {
    json!({"kind": "c15-own-layer", "cfg": c.cfg.to_json(), "data": crate::hist::data_to_json(&c.data), "layer": c.layer, "op": c.kind})
}

fn test_own(case: &OwnCase, st: &mut Stats, counting: bool) -> CaseResult {
    let n = case.cfg.overlay_layers().max(2);
    let li = (case.layer as usize) % n;
    let bytes = make_bytes(&case.data);
    let prepop: Prepop = vec![
        (li, "/d/f".to_string(), Node::File(bytes.clone())),
        (n - 1, "/d/low".to_string(), Node::File(std::sync::Arc::new(b"low".to_vec()))),
        (0, "/d/up".to_string(), Node::File(std::sync::Arc::new(b"up".to_vec()))),
        (n - 1, "/d/sub/deep".to_string(), Node::File(std::sync::Arc::new(b"deep".to_vec()))),
    ];
    let names = ["copy_file(overlay:/d/f -> upper layer:/d/f)", "copy_file(overlay:/d/f -> upper layer:/d/g)", "copy_file(lowest layer:/d/low -> overlay:/d/h)", "move_file(overlay:/d/f -> upper layer:/d/f2)", "copy_dir(overlay:/d -> upper layer:/e)", "copy_file(overlay:/d/f -> second overlay instance:/d/f)", "copy_file(overlay:/d/low -> upper layer:/d/low)", "move_dir(overlay:/d/sub -> upper layer:/d/sub2)"];
    let what = names[case.kind as usize % names.len()];
    let runtime = rt();
    let res: Result<(), String> = runtime.block_on(async {
        let s = build(&case.cfg, &prepop)?;
        let a = abuild(&case.cfg, &prepop, None).await?;
        if s.layers.len() != a.layers.len() || s.layers.is_empty() {
            return Err("harness: layer roots unavailable".into());
        }
        let sync_out: Result<u64, String> = {
            let o = |p: &str| at(&s.root, p).map_err(|e| e.to_string());
            let up = |p: &str| at(&s.layers[0], p).map_err(|e| e.to_string());
            let low = |p: &str| at(&s.layers[n - 1], p).map_err(|e| e.to_string());
            let second = vfs::VfsPath::new(vfs::OverlayFS::new(&s.layers));
            match case.kind % 8 {
                0 => o("/d/f")?.copy_file(&up("/d/f")?).map(|_| 0).map_err(|e| e.to_string()),
                1 => o("/d/f")?.copy_file(&up("/d/g")?).map(|_| 0).map_err(|e| e.to_string()),
                2 => low("/d/low")?.copy_file(&o("/d/h")?).map(|_| 0).map_err(|e| e.to_string()),
                3 => o("/d/f")?.move_file(&up("/d/f2")?).map(|_| 0).map_err(|e| e.to_string()),
                4 => o("/d")?.copy_dir(&up("/e")?).map_err(|e| e.to_string()),
                5 => o("/d/f")?.copy_file(&at(&second, "/d/f").map_err(|e| e.to_string())?).map(|_| 0).map_err(|e| e.to_string()),
                6 => o("/d/low")?.copy_file(&up("/d/low")?).map(|_| 0).map_err(|e| e.to_string()),
                _ => o("/d/sub")?.move_dir(&up("/d/sub2")?).map(|_| 0).map_err(|e| e.to_string()),
            }
        };
        let async_out: Result<u64, String> = {
            let o = |p: &str| aat(&a.root, p).map_err(|e| e.to_string());
            let up = |p: &str| aat(&a.layers[0], p).map_err(|e| e.to_string());
            let low = |p: &str| aat(&a.layers[n - 1], p).map_err(|e| e.to_string());
            let second = vfs::async_vfs::AsyncVfsPath::new(vfs::async_vfs::AsyncOverlayFS::new(&a.layers));
            match case.kind % 8 {
                0 => o("/d/f")?.copy_file(&up("/d/f")?).await.map(|_| 0).map_err(|e| e.to_string()),
                1 => o("/d/f")?.copy_file(&up("/d/g")?).await.map(|_| 0).map_err(|e| e.to_string()),
                2 => low("/d/low")?.copy_file(&o("/d/h")?).await.map(|_| 0).map_err(|e| e.to_string()),
                3 => o("/d/f")?.move_file(&up("/d/f2")?).await.map(|_| 0).map_err(|e| e.to_string()),
                4 => o("/d")?.copy_dir(&up("/e")?).await.map_err(|e| e.to_string()),
                5 => o("/d/f")?.copy_file(&aat(&second, "/d/f").map_err(|e| e.to_string())?).await.map(|_| 0).map_err(|e| e.to_string()),
                6 => o("/d/low")?.copy_file(&up("/d/low")?).await.map(|_| 0).map_err(|e| e.to_string()),
                _ => o("/d/sub")?.move_dir(&up("/d/sub2")?).await.map(|_| 0).map_err(|e| e.to_string()),
            }
        };
        match (&sync_out, &async_out) {
            (Ok(x), Ok(y)) if x == y => {}
            (Err(_), Err(_)) => {}
            _ => return Err(format!("{} (file in layer {}): sync {:?} but async {:?}", what, li, sync_out, async_out)),
        }
        if sync_out.is_err() && case.kind % 8 >= 4 {
            // a failed directory transfer leaves listing-order-dependent partial effects
            return Ok(());
        }
        let (so, ao) = (snapshot(&s.root), asnapshot(&a.root).await);
        if so.tree != ao.tree {
            return Err(format!("{} (file in layer {}), outcome {:?}: the async overlay shows a different tree than the sync one: {:?}", what, li, sync_out.as_ref().map_err(|e| e.as_str()), diff_trees(&so.tree, &ao.tree)));
        }
        for i in 0..s.layers.len() {
            let (sl, al) = (snapshot(&s.layers[i]), asnapshot(&a.layers[i]).await);
            if sl.tree != al.tree {
                return Err(format!("{} (file in layer {}): layer {} of the async stack differs from the sync one: {:?}", what, li, i, diff_trees(&sl.tree, &al.tree)));
            }
        }
        Ok(())
    });
    drop(runtime);
    match res {
        Err(m) => Err(Failure { message: format!("stack {} | {}", case.cfg.render(), m), replay: own_json(case) }),
        Ok(()) => {
            if counting {
                st.label("own_layer_transfers");
                st.label(&format!("own_layer:{}", what.split('(').next().unwrap_or("")));
                st.nontrivial.insert(crate::util::fnv_str(&format!("{:?}", case)));
            }
            Ok(())
        }
    }
}

pub fn run(ctx: &RunCtx) -> i32 {
    let reg = crate::regress::run_for(&ctx.id, &replay);
    if let Some((path, msg)) = &reg.violation {
        println!("--- regression input fails ---\n{}", msg);
        println!("VIOLATION property={} replay={}", ctx.id, path);
        return 1;
    }
    let nplans = ctx.tier.pick(3, 8);
    let n = ctx.tier.pick(800, 24_000);
    let (mut stats, mut failure) = with_stdout_silenced(|| run_sharded(ctx, "lockstep", n, || strategy(false), |c, st, counting| test(c, st, counting, nplans, false)));
    if failure.is_none() {
        let (s2, f2) = walkrm_part(ctx, ctx.tier.pick(3000, 60_000), false);
        stats.merge(s2);
        failure = f2;
    }
    if failure.is_none() {
        let (s5, f5) = with_stdout_silenced(|| run_sharded(ctx, "siblings", ctx.tier.pick(800, 20_000), sib_strategy, test_sib));
        stats.merge(s5);
        failure = f5;
    }
    if failure.is_none() {
        let (s4, f4) = with_stdout_silenced(|| run_sharded(ctx, "times", ctx.tier.pick(160, 3000), times_strategy, test_times));
        stats.merge(s4);
        failure = f4;
    }
    if failure.is_none() {
        let (s3, f3) = with_stdout_silenced(|| run_sharded(ctx, "ownlayer", ctx.tier.pick(1500, 40_000), own_strategy, test_own));
        stats.merge(s3);
        failure = f3;
    }
    write_evidence(
        ctx,
        "exploration",
        RULE,
        &stats,
        json!({"regress_replayed": reg.replayed, "known_findings_confirmed": reg.known_confirmed, "pending_plans_per_case": nplans}),
        &["timestamps and write-handle seek/flush visibility are outside the property (absent from / different in the async API)", "poll plans are sampled, not exhausted; only the tokio current-thread executor is used", "stdout (fd 1) is silenced while async code runs: the library's async read_dir prints every entry"],
        failure.is_some() as u32,
    );
    finish(ctx, &stats, &failure, &[("distinct_nontrivial", 30), ("pending_in_walk_read_dir_futures", 100), ("pending_in_walk_metadata_futures", 100), ("reader_scripts_compared", 50)])
}

// ---------------------------------------------------------------------------------------------
// walk_dir streams with a directory removed while the stream is live (sync, async, async+Pending)
// ---------------------------------------------------------------------------------------------

#[derive(Clone, Debug)]
pub struct WalkRmCase {
    pub cfg: Cfg,
    pub pool: Vec<String>,
    pub tree: Vec<RawEntry>,
    pub pulls: u8,
    pub victim: u16,
    pub plan_seed: u64,
}

fn walkrm_strategy() -> impl Strategy<Value = WalkRmCase> {
    (cfg_strategy(2), pool_strategy(), prepop_strategy(16), 0u8..8, any::<u16>(), any::<u64>()).prop_map(|(cfg, pool, tree, pulls, victim, plan_seed)| {
        let cfg = if cfg.contains_phys() && plan_seed % 5 != 0 { demote_phys(&cfg) } else { cfg };
        WalkRmCase { cfg, pool, tree, pulls, victim, plan_seed }
    })
}

/// judge one walk: items = (Ok(path) | Err(path)) in yield order
fn judge_walk(items: &[Result<String, String>], model: &Tree, victim: &str, who: &str) -> Result<usize, String> {
    let mut seen = std::collections::BTreeSet::new();
    let mut errs = 0usize;
    let inside = model.descendants(victim).len() + 1;
    for it in items {
        match it {
            Ok(p) => {
                if !seen.insert(p.clone()) {
                    return Err(format!("{}: '{}' yielded twice", who, p));
                }
            }
            Err(p) => {
                errs += 1;
                if !is_within(p, victim) && !is_within(victim, p) {
                    return Err(format!("{}: error item names '{}', unrelated to the removed '{}'", who, p, victim));
                }
            }
        }
    }
    if errs > inside {
        return Err(format!("{}: {} error items although only {} entries vanished (the sync iterator reports each vanished entry at most once and carries on)", who, errs, inside));
    }
    for k in model.m.keys() {
        if k.is_empty() || is_within(k, victim) {
            continue;
        }
        if !seen.contains(k) {
            return Err(format!("{}: '{}' still exists and is outside the removed directory but was never yielded", who, k));
        }
    }
    Ok(errs)
}

fn test_walkrm(case: &WalkRmCase, st: &mut Stats, counting: bool, panics_only: bool) -> CaseResult {
    let mut trace: Vec<String> = vec![];
    let mut facts = (0usize, 0u64);
    let runtime = rt();
    let res: Result<(), String> = runtime.block_on(async {
        let mut pool = case.pool.clone();
        if case.cfg.contains_overlay() {
            for n in pool.iter_mut() {
                crate::gen::cut_name(n, 200);
            }
        }
        let nl = case.cfg.overlay_layers().max(1);
        let prepop = make_prepop(&case.tree, &pool, 3, nl);
        let model = union_model(&prepop, nl);
        let dirs: Vec<String> = model.dirs().into_iter().filter(|d| !d.is_empty()).collect();
        if dirs.is_empty() {
            return Ok(());
        }
        let victim = dirs[crate::util::idx(case.victim, dirs.len())].clone();
        // sync reference behaviour, judged by the same rule
        {
            let s = build(&case.cfg, &prepop)?;
            let r = crate::util::guarded(|| -> Result<Vec<Result<String, String>>, String> {
                let mut it = s.root.walk_dir().map_err(|e| e.to_string())?;
                let mut items = vec![];
                for _ in 0..case.pulls {
                    match it.next() {
                        Some(Ok(p)) => items.push(Ok(p.as_str().to_string())),
                        Some(Err(e)) => items.push(Err(e.path().clone())),
                        None => break,
                    }
                }
                at(&s.root, &victim).map_err(|e| e.to_string())?.remove_dir_all().map_err(|e| format!("remove_dir_all: {}", e))?;
                let mut guard = 0;
                for x in it {
                    guard += 1;
                    if guard > 5000 {
                        return Err("sync walk does not terminate".into());
                    }
                    items.push(match x {
                        Ok(p) => Ok(p.as_str().to_string()),
                        Err(e) => Err(e.path().clone()),
                    });
                }
                Ok(items)
            });
            match r {
                Err(p) => return Err(format!("sync walk PANIC: {}", p)),
                Ok(Err(m)) => return Err(m),
                Ok(Ok(items)) => {
                    if !panics_only {
                        judge_walk(&items, &model, &victim, "sync walk_dir")?;
                    }
                }
            }
        }
        for (label, plan) in [("async", None), ("async under a Pending plan", Some(PendPlan::new(case.plan_seed)))] {
            let a = abuild(&case.cfg, &prepop, plan.clone()).await?;
            let fut = async {
                use futures::StreamExt;
                let mut it = a.root.walk_dir().await.map_err(|e| e.to_string())?;
                let mut items: Vec<Result<String, String>> = vec![];
                for _ in 0..case.pulls {
                    match it.next().await {
                        Some(Ok(p)) => items.push(Ok(p.as_str().to_string())),
                        Some(Err(e)) => items.push(Err(e.path().clone())),
                        None => break,
                    }
                }
                aat(&a.root, &victim).map_err(|e| e.to_string())?.remove_dir_all().await.map_err(|e| format!("async remove_dir_all: {}", e))?;
                let mut guard = 0;
                while let Some(x) = it.next().await {
                    guard += 1;
                    if guard > 5000 {
                        return Err(format!("{} walk does not terminate (the same entry is reported over and over)", label));
                    }
                    items.push(match x {
                        Ok(p) => Ok(p.as_str().to_string()),
                        Err(e) => Err(e.path().clone()),
                    });
                }
                Ok::<_, String>(items)
            };
            match AssertUnwindSafe(fut).catch_unwind().await {
                Err(_) => return Err(format!("{} walk_dir PANIC after '{}' was removed while the stream was live", label, victim)),
                Ok(Err(m)) => {
                    if !panics_only || m.contains("terminate") {
                        return Err(m);
                    }
                }
                Ok(Ok(items)) => {
                    let errs = if panics_only { 0 } else { judge_walk(&items, &model, &victim, &format!("{} walk_dir", label))? };
                    facts.0 += errs;
                    trace.push(format!("{}: {} items, {} error items after removing '{}' at pull {}", label, items.len(), errs, victim, case.pulls));
                }
            }
            if let Some(p) = plan {
                facts.1 += p.pends_total.load(Ordering::Relaxed);
            }
        }
        Ok(())
    });
    drop(runtime);
    match res {
        Err(m) => Err(Failure {
            message: format!("stack {}: {}\n    {}", case.cfg.render(), m, trace.join("\n    ")),
            replay: json!({"kind": "c15-walkrm", "cfg": case.cfg.to_json(), "pool": case.pool, "tree": case.tree.iter().map(crate::hist::entry_to_json).collect::<Vec<_>>(), "pulls": case.pulls, "victim": case.victim, "plan_seed": case.plan_seed, "panics_only": panics_only}),
        }),
        Ok(()) => {
            if counting {
                st.label("walk_with_removal_cases");
                st.label_n("walk_with_removal_error_items", facts.0 as u64);
                st.label_n("pending_returns_injected", facts.1);
                if facts.0 > 0 && facts.1 > 0 {
                    st.nontrivial.insert(crate::util::fnv_str(&format!("{:?}", case)));
                    st.label("walk_with_removal_cases_with_errors_under_pending");
                }
                st.sample(json!({"part": "walk_dir with a directory removed while the stream is live", "stack": case.cfg.render(), "trace": trace}), facts.0 > 0);
            }
            Ok(())
        }
    }
}

pub fn walkrm_part(ctx: &RunCtx, n: u32, panics_only: bool) -> (Stats, Option<Failure>) {
    with_stdout_silenced(|| run_sharded(ctx, "walkrm", n, walkrm_strategy, |c, st, counting| test_walkrm(c, st, counting, panics_only)))
}

fn walkrm_from_json(v: &Value) -> Option<WalkRmCase> {
    Some(WalkRmCase {
        cfg: Cfg::from_json(v.get("cfg")?)?,
        pool: v.get("pool")?.as_array()?.iter().filter_map(|x| x.as_str().map(|s| s.to_string())).collect(),
        tree: v.get("tree")?.as_array()?.iter().filter_map(crate::hist::entry_from_json).collect(),
        pulls: v.get("pulls")?.as_u64()? as u8,
        victim: v.get("victim")?.as_u64()? as u16,
        plan_seed: v.get("plan_seed")?.as_u64()?,
    })
}
