//! C01 — every backend implements one abstract file tree (operation contracts).

use super::common::*;
use crate::gen::Profile;
use crate::hist::*;

pub fn prop() -> HistProp {
    let mut opts = HistOpts::new(Profile::Typed);
    // timestamp setters are part of the histories: they must not disturb the tree or later calls
    opts.with_time = true;
    opts.twin = true;
    opts.contract = true;
    HistProp {
        opts,
        cfgs: || crate::gen::with_emb(crate::gen::cfg_deep()),
        max_ops: 40,
        max_prepop: 8,
        cases_quick: 3000,
        cases_thorough: 200_000,
        nontrivial: |s, _| s.executed >= 6 && s.fail_on_nonempty >= 1 && s.removed_created_earlier >= 1 && s.wrong_typed >= 1,
        rule: "histories vec(op,0..=40) in the typed profile x name pool x depth x backend stack (grammar Mem|Phys|Altroot(x,depth 0..3)|Overlay[1..4 x], nesting<=2 plus pre-populated layers; one stack in thirteen is an overlay over the read-only embedded fixture; name pools of 3..5, 12..20 (depth 2) or 2 (depth 7) names; one history in twelve has 40..120 ops; timestamp setters included; on overlays a second instance over the same layers must show the same tree); non-trivial = >=6 executed ops with >=1 expected failure on a non-empty tree, >=1 removal of an entry created earlier in the case and >=1 wrong-typed call; distinct by hash of the generated case",
        floors: vec![("distinct_nontrivial", 20), ("cfg:mem", 5), ("cfg:phys", 5), ("cfg:altroot", 5), ("cfg:overlay", 5), ("wrong_typed_calls", 100), ("expected_failures", 300)],
        assumptions: vec![
            "Linux host; scratch on tmpfs (/dev/shm) or the temp dir",
            "message texts, non-named error kinds, listing order and timestamps are not compared",
            "after a failed composite call the model is re-synchronised from the observed (well-formed) tree",
            "pre-populated overlay layers are type-consistent, except for a directory above a same-named file of a deeper layer (the first layer that has a path decides its type)",
        ],
        exclude: crate::findings::hist_excluder("C01"),
        labeler: no_labels,
    }
}
