//! C01 — every backend implements one abstract file tree (operation contracts).

use super::common::*;
use crate::gen::{cfg_strategy, Profile};
use crate::hist::*;

pub fn prop() -> HistProp {
    let mut opts = HistOpts::new(Profile::Typed);
    opts.contract = true;
    HistProp {
        opts,
        cfgs: || crate::gen::with_emb(cfg_strategy(2)),
        max_ops: 40,
        max_prepop: 8,
        cases_quick: 3000,
        cases_thorough: 200_000,
        nontrivial: |s, _| s.executed >= 6 && s.fail_on_nonempty >= 1 && s.removed_created_earlier >= 1 && s.wrong_typed >= 1,
        rule: "histories vec(op,0..=40) in the typed profile x name pool x depth x backend stack (grammar Mem|Phys|Altroot(x,depth 0..3)|Overlay[1..4 x], nesting<=2 plus pre-populated layers); non-trivial = >=6 executed ops with >=1 expected failure on a non-empty tree, >=1 removal of an entry created earlier in the case and >=1 wrong-typed call; distinct by hash of the generated case",
        floors: vec![("distinct_nontrivial", 20), ("cfg:mem", 5), ("cfg:phys", 5), ("cfg:altroot", 5), ("cfg:overlay", 5), ("wrong_typed_calls", 100), ("expected_failures", 300)],
        assumptions: vec![
            "Linux host; scratch on tmpfs (/dev/shm) or the temp dir",
            "message texts, non-named error kinds, listing order and timestamps are not compared",
            "after a failed composite call the model is re-synchronised from the observed (well-formed) tree",
            "pre-populated overlay layers are type-consistent",
        ],
        exclude: crate::findings::hist_excluder("C01"),
        labeler: no_labels,
    }
}
