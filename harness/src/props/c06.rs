//! C06 — join is total, canonical and cannot climb above the root.

use crate::engine::*;
use crate::util::guarded;
use proptest::prelude::*;
use serde_json::{json, Value};
use vfs::async_vfs::{AsyncMemoryFS, AsyncVfsPath};
use vfs::error::VfsErrorKind;
use vfs::{MemoryFS, VfsPath};

/// Reference resolver (independent of the implementation).
pub fn ref_join(base: &str, arg: &str) -> String {
    let mut comps: Vec<&str> = if arg.starts_with('/') {
        vec![]
    } else {
        base.split('/').filter(|c| !c.is_empty()).collect()
    };
    for c in arg.split('/') {
        match c {
            "" | "." => {}
            ".." => {
                comps.pop();
            }
            other => comps.push(other),
        }
    }
    let mut out = String::new();
    for c in comps {
        out.push('/');
        out.push_str(c);
    }
    out
}

pub fn is_canonical(p: &str) -> bool {
    if p.is_empty() {
        return true;
    }
    if !p.starts_with('/') {
        return false;
    }
    p[1..].split('/').all(|c| !c.is_empty() && c != "." && c != "..")
}

fn ref_extension(filename: &str) -> Option<String> {
    // text after the last '.', unless there is no '.' or the only '.' leads
    match filename.rfind('.') {
        None | Some(0) => None,
        Some(i) => Some(filename[i + 1..].to_string()),
    }
}

const BASES: [&str; 5] = ["", "a", "a/b.c", "é/a", "x/y/z"];
const TOKENS: [&str; 6] = ["/", ".", "..", "a", "b.c", "é"];

pub struct Roots {
    pub root: VfsPath,
    pub other: VfsPath,
    pub aroot: AsyncVfsPath,
}

/// a path of a filesystem created when the process started: it stays alive while hundreds of
/// thousands of other filesystems come and go (identity must not depend on a recycled token)
fn elder() -> &'static VfsPath {
    static ELDER: std::sync::OnceLock<VfsPath> = std::sync::OnceLock::new();
    ELDER.get_or_init(|| VfsPath::new(MemoryFS::new()))
}

impl Roots {
    pub fn new() -> Roots {
        let _ = elder();
        Roots {
            root: VfsPath::new(MemoryFS::new()),
            other: VfsPath::new(MemoryFS::new()),
            aroot: AsyncVfsPath::new(AsyncMemoryFS::new()),
        }
    }
}

/// All checks for one (base, arg) pair. `base` is given as a join argument from the root that
/// is known to be accepted (canonical components).
pub fn check_pair(r: &Roots, base_arg: &str, arg: &str) -> Result<bool, String> {
    let res = guarded(|| -> Result<bool, String> {
        let base = r.root.join(base_arg).map_err(|e| format!("base join('{}') failed: {}", base_arg, e))?;
        let abase = r.aroot.join(base_arg).map_err(|e| format!("async base join('{}') failed: {}", base_arg, e))?;
        let trailing = arg.len() > 1 && arg.ends_with('/');
        let got = base.join(arg);
        let agot = abase.join(arg);
        match (&got, &agot) {
            (Ok(a), Ok(b)) => {
                if a.as_str() != b.as_str() {
                    return Err(format!("sync join gives '{}' but async join gives '{}'", a.as_str(), b.as_str()));
                }
            }
            (Err(_), Err(_)) => {}
            _ => return Err("sync and async join disagree on acceptance".to_string()),
        }
        let joined = match got {
            Err(e) => {
                if !trailing {
                    return Err(format!("join rejected an argument without a trailing slash: {}", e));
                }
                if !matches!(e.kind(), VfsErrorKind::InvalidPath) {
                    return Err(format!("trailing-slash join rejected with kind {:?}, expected InvalidPath", e.kind()));
                }
                return Ok(false);
            }
            Ok(p) => p,
        };
        let s = joined.as_str().to_string();
        let expect = ref_join(base.as_str(), arg);
        if !is_canonical(&s) {
            return Err(format!("result '{}' is not in canonical form", s));
        }
        if s != expect {
            return Err(format!("result '{}' differs from the lexical resolution '{}'", s, expect));
        }
        if joined.is_root() != s.is_empty() {
            return Err(format!("is_root()={} for '{}'", joined.is_root(), s));
        }
        // filename / parent / extension consistent with the canonical form
        let fname = joined.filename();
        let expect_name = s.rsplit('/').next().unwrap_or("").to_string();
        if fname != expect_name {
            return Err(format!("filename() of '{}' is '{}'", s, fname));
        }
        let par = joined.parent();
        let expect_par = match s.rfind('/') {
            Some(i) => s[..i].to_string(),
            None => String::new(),
        };
        if par.as_str() != expect_par {
            return Err(format!("parent() of '{}' is '{}', expected '{}'", s, par.as_str(), expect_par));
        }
        if joined.extension() != ref_extension(&expect_name) {
            return Err(format!("extension() of '{}' is {:?}, expected {:?}", s, joined.extension(), ref_extension(&expect_name)));
        }
        // root(): empty, same instance
        let rt = joined.root();
        if !rt.as_str().is_empty() || rt != r.root || !rt.is_root() {
            return Err(format!("root() of '{}' is not the root of the same filesystem", s));
        }
        // equality: same instance and same string
        let again = r.root.join(&expect).map_err(|e| format!("re-join of canonical '{}' failed: {}", expect, e))?;
        if again != joined {
            return Err(format!("two paths with canonical string '{}' on one instance are not equal", s));
        }
        let old_one = elder().join(&expect).map_err(|e| e.to_string())?;
        if old_one == joined || *elder() == rt {
            return Err(format!("path '{}' of a filesystem created at process start compares equal to the same path of a filesystem created just now", s));
        }
        let foreign = r.other.join(&expect).map_err(|e| e.to_string())?;
        if old_one == foreign || *elder() == r.other {
            return Err(format!("path '{}' of a filesystem created at process start compares equal to the same path of a filesystem created just now", s));
        }
        if foreign == joined {
            return Err(format!("paths '{}' of two different filesystem instances compare equal", s));
        }
        if !s.is_empty() && joined == par {
            return Err(format!("'{}' equals its parent", s));
        }
        // equality matrix over every way of obtaining a path (join, parent, root) on two instances
        let mine = [joined.clone(), par.clone(), rt.clone(), again.clone(), joined.parent().root()];
        let theirs = [foreign.clone(), foreign.parent(), foreign.root(), r.other.root(), r.other.clone()];
        for a in &mine {
            for b in &theirs {
                if a == b {
                    return Err(format!("'{}' of one filesystem instance equals '{}' of another instance", a.as_str(), b.as_str()));
                }
            }
            for a2 in &mine {
                if (a == a2) != (a.as_str() == a2.as_str()) {
                    return Err(format!("equality of '{}' and '{}' on one instance is {}", a.as_str(), a2.as_str(), a == a2));
                }
            }
        }
        // parent(join(p, name)) == p for single-component names
        if !arg.is_empty() && !arg.contains('/') && arg != "." && arg != ".." {
            if par != base {
                return Err(format!("parent(join('{}','{}')) = '{}' != base", base.as_str(), arg, par.as_str()));
            }
            if fname != arg {
                return Err(format!("filename(join(p,'{}')) = '{}'", arg, fname));
            }
        }
        // async twin: parent/filename/extension agree
        let aj = agot.map_err(|e| e.to_string())?;
        if aj.filename() != fname || aj.extension() != joined.extension() || aj.parent().as_str() != par.as_str() {
            return Err(format!("async path accessors differ from sync ones for '{}'", s));
        }
        Ok(true)
    });
    match res {
        Ok(r) => r,
        Err(m) => Err(format!("join panicked: {}", m)),
    }
}

/// join(join(p,a),b) == join(p, a + "/" + b) for non-empty a and relative non-empty b
pub fn check_composition(r: &Roots, base_arg: &str, a: &str, b: &str) -> Result<(), String> {
    if a.is_empty() || b.is_empty() || b.starts_with('/') {
        return Ok(());
    }
    let res = guarded(|| -> Result<(), String> {
        let base = r.root.join(base_arg).map_err(|e| e.to_string())?;
        let step = match base.join(a) {
            Ok(p) => p,
            Err(_) => return Ok(()),
        };
        let two = match step.join(b) {
            Ok(p) => p,
            Err(_) => return Ok(()),
        };
        let one = match base.join(format!("{}/{}", a, b)) {
            Ok(p) => p,
            Err(e) => return Err(format!("join(p,'{}') and join(_, '{}') accepted but join(p,'{}/{}') rejected: {}", a, b, a, b, e)),
        };
        if one != two {
            return Err(format!(
                "join(join('{}','{}'),'{}') = '{}' but join('{}','{}/{}') = '{}'",
                base.as_str(), a, b, two.as_str(), base.as_str(), a, b, one.as_str()
            ));
        }
        Ok(())
    });
    match res {
        Ok(r) => r,
        Err(m) => Err(format!("join panicked: {}", m)),
    }
}

fn nontrivial(arg: &str) -> bool {
    let comps: Vec<&str> = arg.split('/').collect();
    let has_dd = comps.iter().any(|c| *c == "..");
    let other = comps.iter().any(|c| !c.is_empty() && *c != ".." && *c != ".");
    let mb_adj = {
        let cs: Vec<char> = arg.chars().collect();
        cs.windows(2).any(|w| (w[0] == '/' && !w[1].is_ascii()) || (!w[0].is_ascii() && w[1] == '/'))
    };
    (has_dd && other) || mb_adj
}

fn fail(base: &str, arg: &str, msg: String) -> Failure {
    Failure {
        message: format!("base '{}' join {:?}: {}", base, arg, msg),
        replay: json!({"kind": "join", "base": base, "arg": arg}),
    }
}

/// exhaustive part: every concatenation of <= max_tokens tokens x every base
fn exhaustive(ctx: &RunCtx, max_tokens: usize) -> (Stats, Option<Failure>) {
    // enumerate strings as numbers in base 6 with explicit length
    let mut ranges: Vec<(usize, u64)> = vec![]; // (len, count)
    for len in 0..=max_tokens {
        ranges.push((len, 6u64.pow(len as u32)));
    }
    let total: u64 = ranges.iter().map(|r| r.1).sum();
    let shards = ctx.shards.max(1) as u64;
    let results: Vec<(Stats, Option<Failure>)> = std::thread::scope(|scope| {
        let mut hs = vec![];
        for shard in 0..shards {
            let ranges = ranges.clone();
            hs.push(scope.spawn(move || {
                crate::util::install_panic_hook();
                let r = Roots::new();
                let mut st = Stats::default();
                let mut failure = None;
                let mut n: u64 = 0;
                'outer: for (len, count) in ranges {
                    for code in 0..count {
                        let me = n % shards == shard;
                        n += 1;
                        if !me {
                            continue;
                        }
                        let mut arg = String::new();
                        let mut c = code;
                        for _ in 0..len {
                            arg.push_str(TOKENS[(c % 6) as usize]);
                            c /= 6;
                        }
                        for base in BASES {
                            st.evaluations += 1;
                            match check_pair(&r, base, &arg) {
                                Ok(accepted) => {
                                    if accepted {
                                        st.label("accepted");
                                    } else {
                                        st.label("rejected_trailing_slash");
                                    }
                                    if nontrivial(&arg) {
                                        st.nontrivial.insert(crate::util::fnv_str(&format!("{}|{}", base, arg)));
                                        if st.sample_nontrivial.len() < 3 && code % 977 == 5 {
                                            st.sample_nontrivial.push(json!({"base": base, "arg": arg, "result": ref_join(base, &arg)}));
                                        }
                                    }
                                }
                                Err(m) => {
                                    failure = Some(fail(base, &arg, m));
                                    break 'outer;
                                }
                            }
                        }
                    }
                }
                (st, failure)
            }));
        }
        hs.into_iter().map(|h| h.join().unwrap()).collect()
    });
    let mut total_stats = Stats::default();
    let mut first = None;
    for (s, f) in results {
        total_stats.merge(s);
        if first.is_none() {
            first = f;
        }
    }
    total_stats.label_n("exhaustive_strings", total);
    (total_stats, first)
}

const WIDE: [&str; 16] = ["/", ".", "..", "...", "a", "b.c", "é", " ", "\\", "e\u{301}", "😀", "\0", "a b", "-", "//", "./"];

/// lengths around the sizes at which implementations tend to switch behaviour (buffers, OS limits)
const LEN_EDGES: [usize; 10] = [31, 64, 128, 255, 256, 260, 512, 1024, 4096, 65536];

fn wide_string() -> impl Strategy<Value = String> {
    prop_oneof![
        16 => proptest::collection::vec(0usize..WIDE.len(), 0..64).prop_map(|v| v.into_iter().map(|i| WIDE[i]).collect::<String>()),
        4 => any::<String>(),
        4 => "[/.a-c]{0,12}",
        // long arguments: many tokens ...
        2 => proptest::collection::vec(0usize..WIDE.len(), 64..700).prop_map(|v| v.into_iter().map(|i| WIDE[i]).collect::<String>()),
        // ... or a filler run whose byte length sits at a size edge (multi-byte fillers put a
        // scalar across the edge), between a generated head and tail
        2 => (proptest::collection::vec(0usize..WIDE.len(), 0..4), 0usize..6, 0usize..LEN_EDGES.len(), 0usize..8, proptest::collection::vec(0usize..WIDE.len(), 0..4)).prop_map(|(head, filler, edge, back, tail)| {
            let fill = ["a", "é", "😀", "e\u{301}", "a/", "é/"][filler];
            let mut s: String = head.into_iter().map(|i| WIDE[i]).collect();
            let target = LEN_EDGES[edge].saturating_sub(back);
            while s.len() < target {
                s.push_str(fill);
            }
            s.extend(tail.into_iter().map(|i| WIDE[i]));
            s
        }),
        // ... or a number of COMPONENTS at a counting edge
        1 => (0usize..COUNT_EDGES.len(), 0usize..3, 0usize..3).prop_map(|(edge, back, name)| {
            let comp = ["a", "é", "b.c"][name];
            let count = COUNT_EDGES[edge].saturating_sub(back).max(1);
            let mut s = String::with_capacity(count * (comp.len() + 1));
            for i in 0..count {
                if i > 0 {
                    s.push('/');
                }
                s.push_str(comp);
            }
            s
        }),
    ]
}

const COUNT_EDGES: [usize; 9] = [16, 127, 128, 255, 256, 257, 512, 1024, 65536];

/// chains over a SMALL alphabet of same-length names, so that the same (base, segment) pair and
/// different bases of equal length recur within one chain: join must be a function of its two
/// arguments only, whatever was joined, kept or dropped before
fn small_chain_strategy() -> impl Strategy<Value = Vec<ChainStep>> {
    const NAMES: [&str; 8] = ["a", "b", "c", "d", "a/b", "..", "c/d", "../b"];
    proptest::collection::vec(
        prop_oneof![
            8 => (0usize..NAMES.len()).prop_map(|i| ChainStep::Join(NAMES[i].to_string())),
            2 => Just(ChainStep::Parent),
            2 => Just(ChainStep::Root),
            1 => Just(ChainStep::Keep),
            1 => Just(ChainStep::Forget),
        ],
        2..24,
    )
}

fn base_chain() -> impl Strategy<Value = Vec<String>> {
    proptest::collection::vec(prop_oneof![Just("a".to_string()), Just("b.c".to_string()), Just("é".to_string()), Just("..".to_string()), Just("x/y".to_string())], 0..4)
}

#[derive(Clone, Debug)]
enum ChainStep {
    Join(String),
    Parent,
    Root,
    /// keep a clone of the current path alive / drop all kept clones (varies what the allocator
    /// hands out next; no effect on the model)
    Keep,
    Forget,
}

fn chain_strategy() -> impl Strategy<Value = Vec<ChainStep>> {
    proptest::collection::vec(
        prop_oneof![
            6 => wide_string().prop_map(ChainStep::Join),
            2 => Just(ChainStep::Parent),
            1 => Just(ChainStep::Root),
        ],
        1..12,
    )
}

fn check_chain(r: &Roots, chain: &[ChainStep]) -> Result<usize, String> {
    let res = guarded(|| -> Result<usize, String> {
        let mut cur = r.root.clone();
        let mut acur = r.aroot.clone();
        let mut model = String::new();
        let mut joins = 0;
        let mut kept: Vec<VfsPath> = vec![];
        for step in chain {
            // the async path type walks the same chain
            match step {
                ChainStep::Keep | ChainStep::Forget => {}
                ChainStep::Join(a) => {
                    if let Ok(p) = acur.join(a) {
                        acur = p;
                    }
                }
                ChainStep::Parent => acur = acur.parent(),
                ChainStep::Root => acur = acur.root(),
            }
            match step {
                ChainStep::Join(a) => {
                    let trailing = a.len() > 1 && a.ends_with('/');
                    match cur.join(a) {
                        Ok(p) => {
                            let e = ref_join(&model, a);
                            if p.as_str() != e {
                                return Err(format!("chain: join('{}', {:?}) = '{}' expected '{}'", model, a, p.as_str(), e));
                            }
                            model = e;
                            cur = p;
                            joins += 1;
                        }
                        Err(e) => {
                            if !trailing || !matches!(e.kind(), VfsErrorKind::InvalidPath) {
                                return Err(format!("chain: join('{}', {:?}) rejected: {}", model, a, e));
                            }
                        }
                    }
                }
                ChainStep::Parent => {
                    cur = cur.parent();
                    model = match model.rfind('/') {
                        Some(i) => model[..i].to_string(),
                        None => String::new(),
                    };
                }
                ChainStep::Root => {
                    cur = cur.root();
                    model.clear();
                }
                ChainStep::Keep => kept.push(cur.clone()),
                ChainStep::Forget => kept.clear(),
            }
            if cur.as_str() != model || !is_canonical(cur.as_str()) {
                return Err(format!("chain: path is '{}' but model says '{}'", cur.as_str(), model));
            }
            if acur.as_str() != model || acur.filename() != cur.filename() || acur.extension() != cur.extension() || acur.is_root() != cur.is_root() {
                return Err(format!("chain: async path is '{}' (filename {:?}, extension {:?}) but the sync path is '{}' (filename {:?}, extension {:?})", acur.as_str(), acur.filename(), acur.extension(), cur.as_str(), cur.filename(), cur.extension()));
            }
        }
        Ok(joins)
    });
    match res {
        Ok(r) => r,
        Err(m) => Err(format!("panicked: {}", m)),
    }
}

const RULE: &str = "(1) EXHAUSTIVE: every string that is a concatenation of <=N tokens over {'/','.','..','a','b.c','é'} (N=7 quick, 10 thorough) joined onto 5 bases, for VfsPath and AsyncVfsPath; (2) random: strings over a wider alphabet (spaces, backslash, combining marks, 4-byte scalars, NUL, up to 64 tokens) and arbitrary Strings, composition pairs, and chains of join/parent/root up to length 12; long arguments (64..700 tokens, and filler runs ending at byte lengths 31..65536 with multi-byte fillers across the edge; component COUNTS at 16..65536 ± 2); chains of up to 24 steps over 8 short names where the same segment recurs on different bases of equal length, with clones kept and dropped in between (join must not depend on the history); joins onto short-lived temporaries (`deep.parent().join(seg)` over 2..8 deep paths with parents of equal byte length, expected values computed beforehand so that the allocator can hand the same address to the next temporary); oracle = 15-line reference resolver + canonical-form predicate + accessor laws (parent, filename, extension, root, is_root, equality across two instances and against a filesystem that has been alive since process start while millions of others were created); non-trivial = argument with >=1 '..' and >=1 other component, or a multi-byte character adjacent to a separator, or a chain with >=3 joins; distinct by (base,arg) hash; PLUS, against an UNOPTIMISED build of vfs (crate harness_dbg: opt-level 0, overflow checks, debug assertions - the build `cargo test` and debug applications use): joins of arguments with 1 .. 10^6 segments (4*10^6 in thorough; a fixed ladder with seed-dependent offsets) of seven kinds (names, '.', '..', empty, alternating name/'..', absolute, mixed) onto bases of depth 0 and 3, each on a thread with the default 2 MiB stack, compared with an iterative reference resolver incl. parent()/filename() of the result; a process killed by the stack guard is a violation";

/// join on SHORT-LIVED bases: every base is a temporary (`deep.parent()`), dropped right after
/// the join, so that the next temporary may live at the same address with the same length. The
/// expected values are computed first; the loop itself does nothing but the calls under test.
fn check_transient(r: &Roots, deeps: &[String], seg: &str) -> Result<usize, String> {
    let res = guarded(|| -> Result<usize, String> {
        let mut held = vec![];
        let mut expect = vec![];
        for d in deeps {
            let p = r.root.join(d).map_err(|e| format!("join('{}') failed: {}", d, e))?;
            let par = match p.as_str().rfind('/') {
                Some(i) => p.as_str()[..i].to_string(),
                None => String::new(),
            };
            expect.push((par.clone(), ref_join(&par, seg)));
            held.push(p);
        }
        let mut got: Vec<Option<VfsPath>> = Vec::with_capacity(held.len() * 2);
        for _round in 0..2 {
            for p in &held {
                got.push(p.parent().join(seg).ok());
            }
        }
        let trailing = seg.len() > 1 && seg.ends_with('/');
        for (i, g) in got.iter().enumerate() {
            let (par, e) = &expect[i % held.len()];
            match g {
                None if trailing => {}
                None => return Err(format!("join('{}', {:?}) on a temporary base was rejected", par, seg)),
                Some(g) if g.as_str() != e => {
                    return Err(format!("join('{}', {:?}) on a temporary base gave '{}', expected '{}' (bases joined before: {:?})", par, seg, g.as_str(), e, expect.iter().map(|x| &x.0).collect::<Vec<_>>()))
                }
                Some(g) => {
                    if !seg.is_empty() && !seg.contains('/') && seg != "." && seg != ".." && g.parent().as_str() != par {
                        return Err(format!("parent(join('{}', {:?})) is '{}'", par, seg, g.parent().as_str()));
                    }
                }
            }
        }
        Ok(got.len())
    });
    match res {
        Ok(r) => r,
        Err(m) => Err(format!("panicked: {}", m)),
    }
}

fn transient_strategy() -> impl Strategy<Value = (Vec<String>, String)> {
    // short and long names: whether a String and the Arc<str> made from it fall into the same
    // allocator size class depends on the length, and with it which address the next temporary gets
    const NAMES: [&str; 12] = ["a", "b", "é", "ü", "b.c", "x.y", "posts", "pages", "2000", "2001", "x.tar.gz", "y.tar.gz"];
    const SEGS: [&str; 8] = ["f", "index.html", "sub/f.txt", "../g", "./h/../i", "é/日", "..", ""];
    (
        proptest::collection::vec(proptest::collection::vec(0usize..NAMES.len(), 1..6).prop_map(|v| v.into_iter().map(|i| NAMES[i]).collect::<Vec<_>>().join("/")), 2..8),
        prop_oneof![3 => (0usize..SEGS.len()).prop_map(|i| SEGS[i].to_string()), 1 => wide_string()],
    )
}

fn chain_json(chain: &[ChainStep]) -> Value {
    json!({"kind": "chain", "steps": chain.iter().map(|s| match s {
        ChainStep::Join(a) => format!("join:{}", a),
        ChainStep::Parent => "<parent>".to_string(),
        ChainStep::Root => "<root>".to_string(),
        ChainStep::Keep => "<keep>".to_string(),
        ChainStep::Forget => "<forget>".to_string(),
    }).collect::<Vec<_>>()})
}

/// C06 against an UNOPTIMISED build of vfs (crate harness_dbg, binary `joindbg`, built by ./run and
/// named by VERIF_JOINDBG): joins of arguments with up to millions of segments on threads with the
/// default stack, compared with an iterative reference resolver. A process killed by the stack
/// guard (or any other signal) is a violation: join is not total in that build.
/// Returns (cases, joins) or None if the binary is not available (fuzz targets, direct invocation).
fn unoptimised_part(one: Option<(&str, u64, u64)>, tier: &str, seed: u64) -> Result<Option<(u64, u64)>, Failure> {
    let Some(bin) = std::env::var_os("VERIF_JOINDBG").map(std::path::PathBuf::from).filter(|p| p.is_file()) else { return Ok(None) };
    let mut cmd = std::process::Command::new(&bin);
    if let Some((k, n, d)) = one {
        cmd.arg(k).arg(n.to_string()).arg(d.to_string());
    }
    let out = cmd.env("VERIF_TIER", tier).env("VERIF_SEED", seed.to_string()).output().map_err(|e| Failure { message: format!("cannot run {}: {}", bin.display(), e), replay: json!({"kind": "infra"}) })?;
    let stdout = String::from_utf8_lossy(&out.stdout).to_string();
    let last_case: Vec<String> = stdout.lines().filter(|l| l.starts_with("CASE ")).last().map(|l| l.split_whitespace().skip(1).map(String::from).collect()).unwrap_or_default();
    let done: Option<(u64, u64)> = stdout.lines().find(|l| l.starts_with("DONE ")).and_then(|l| {
        let mut it = l.split_whitespace().skip(1).filter_map(|x| x.parse::<u64>().ok());
        Some((it.next()?, it.next()?))
    });
    if out.status.success() {
        if let Some(d) = done {
            return Ok(Some(d));
        }
    }
    let what = stdout.lines().find(|l| l.starts_with("MISMATCH") || l.starts_with("PANIC")).map(String::from).unwrap_or_else(|| {
        let err = String::from_utf8_lossy(&out.stderr);
        format!("the process ended with {:?}: {}", out.status, err.lines().rev().take(2).collect::<Vec<_>>().join(" | "))
    });
    let (k, n, d) = (last_case.first().cloned().unwrap_or_default(), last_case.get(1).and_then(|x| x.parse::<u64>().ok()).unwrap_or(0), last_case.get(2).and_then(|x| x.parse::<u64>().ok()).unwrap_or(0));
    Err(Failure {
        message: format!("unoptimised build of vfs (opt-level 0): join of an argument of {} '/'-separated segments of kind '{}' on a base of depth {} (thread with the default 2 MiB stack): {}", n, k, d, what),
        replay: json!({"kind": "join-unoptimised", "segment_kind": k, "segments": n, "base_depth": d}),
    })
}

pub fn replay(v: &Value) -> CaseResult {
    if v.get("kind").and_then(|k| k.as_str()) == Some("join-unoptimised") {
        let k = v.get("segment_kind").and_then(|x| x.as_str()).unwrap_or("names");
        let n = v.get("segments").and_then(|x| x.as_u64()).unwrap_or(1);
        let d = v.get("base_depth").and_then(|x| x.as_u64()).unwrap_or(0);
        return unoptimised_part(Some((k, n, d)), "quick", 0).map(|_| ());
    }
    let r = Roots::new();
    if v.get("kind").and_then(|k| k.as_str()) == Some("join") {
        let base = v.get("base").and_then(|x| x.as_str()).unwrap_or("");
        let arg = v.get("arg").and_then(|x| x.as_str()).unwrap_or("");
        check_pair(&r, base, arg).map(|_| ()).map_err(|m| fail(base, arg, m))?;
        if let Some(b) = v.get("arg2").and_then(|x| x.as_str()) {
            check_composition(&r, base, arg, b).map_err(|m| fail(base, arg, m))?;
        }
        return Ok(());
    }
    if v.get("kind").and_then(|k| k.as_str()) == Some("transient") {
        let deeps: Vec<String> = v.get("deeps").and_then(|x| x.as_array()).map(|a| a.iter().filter_map(|s| s.as_str().map(String::from)).collect()).unwrap_or_default();
        let seg = v.get("seg").and_then(|x| x.as_str()).unwrap_or("");
        return check_transient(&r, &deeps, seg).map(|_| ()).map_err(|m| Failure { message: m, replay: v.clone() });
    }
    if v.get("kind").and_then(|k| k.as_str()) == Some("chain") {
        let steps: Vec<ChainStep> = v
            .get("steps")
            .and_then(|x| x.as_array())
            .map(|a| {
                a.iter()
                    .map(|s| match s.as_str() {
                        Some("<parent>") => ChainStep::Parent,
                        Some("<root>") => ChainStep::Root,
                        Some("<keep>") => ChainStep::Keep,
                        Some("<forget>") => ChainStep::Forget,
                        Some(x) => ChainStep::Join(x.trim_start_matches("join:").to_string()),
                        None => ChainStep::Root,
                    })
                    .collect()
            })
            .unwrap_or_default();
        return check_chain(&r, &steps).map(|_| ()).map_err(|m| Failure { message: m, replay: v.clone() });
    }
    Err(Failure { message: "unknown C06 replay kind".into(), replay: v.clone() })
}

pub fn run(ctx: &RunCtx) -> i32 {
    let reg = crate::regress::run_for(&ctx.id, &replay);
    if let Some((path, msg)) = &reg.violation {
        println!("--- regression input fails ---\n{}", msg);
        println!("VIOLATION property={} replay={}", ctx.id, path);
        return 1;
    }
    let max_tokens = ctx.tier.pick(7, 10);
    let (mut stats, mut failure) = exhaustive(ctx, max_tokens);
    if failure.is_none() {
        let n = ctx.tier.pick(400_000, 20_000_000);
        let (s2, f2) = run_sharded(
            ctx,
            "random",
            n,
            || (base_chain(), wide_string(), wide_string()),
            |(chain, arg, arg2), st, counting| {
                let r = Roots::new();
                let base_arg = ref_join("", &chain.join("/"));
                let base_arg = base_arg.trim_start_matches('/').to_string();
                let res = check_pair(&r, &base_arg, arg).map_err(|m| fail(&base_arg, arg, m))?;
                check_composition(&r, &base_arg, arg, arg2).map_err(|m| Failure {
                    message: format!("base '{}': {}", base_arg, m),
                    replay: json!({"kind": "join", "base": base_arg, "arg": arg, "arg2": arg2}),
                })?;
                if counting {
                    st.label(if res { "random_accepted" } else { "random_rejected_trailing_slash" });
                    if nontrivial(arg) {
                        st.nontrivial.insert(crate::util::fnv_str(&format!("{}|{}", base_arg, arg)));
                        st.label("random_nontrivial");
                    }
                    if !arg.is_ascii() {
                        st.label("random_non_ascii");
                    }
                    if arg.len() > 256 {
                        st.label("random_argument_longer_than_256_bytes");
                    }
                    st.sample(json!({"base": base_arg, "arg": arg, "result": ref_join(&base_arg, arg)}), nontrivial(arg));
                }
                Ok(())
            },
        );
        stats.merge(s2);
        failure = f2;
    }
    if failure.is_none() {
        let n = ctx.tier.pick(100_000, 5_000_000);
        let (s3, f3) = run_sharded(ctx, "chains", n, chain_strategy, |chain, st, counting| {
            let r = Roots::new();
            let joins = check_chain(&r, chain).map_err(|m| Failure {
                message: m,
                replay: chain_json(chain),
            })?;
            if counting {
                st.label("chains");
                if joins >= 3 {
                    st.label("chains_with_3_joins");
                    st.nontrivial.insert(crate::util::fnv_str(&format!("{:?}", chain)));
                }
            }
            Ok(())
        });
        stats.merge(s3);
        failure = f3;
    }
    if failure.is_none() {
        let n = ctx.tier.pick(150_000, 6_000_000);
        let (s4, f4) = run_sharded(ctx, "recurring", n, small_chain_strategy, |chain, st, counting| {
            let r = Roots::new();
            check_chain(&r, chain).map_err(|m| Failure { message: m, replay: chain_json(chain) })?;
            if counting {
                st.label("small_alphabet_chains");
                // the same segment joined onto two different bases of equal length
                let mut seen: Vec<(usize, String, String)> = vec![];
                let mut model = String::new();
                let mut recur = false;
                for s in chain {
                    match s {
                        ChainStep::Join(a) => {
                            if seen.iter().any(|(l, b, seg)| *l == model.len() && b != &model && seg == a) {
                                recur = true;
                            }
                            seen.push((model.len(), model.clone(), a.clone()));
                            model = ref_join(&model, a);
                        }
                        ChainStep::Parent => model = model.rfind('/').map(|i| model[..i].to_string()).unwrap_or_default(),
                        ChainStep::Root => model.clear(),
                        _ => {}
                    }
                }
                if recur {
                    st.label("same_segment_on_two_bases_of_equal_length");
                    st.nontrivial.insert(crate::util::fnv_str(&format!("{:?}", chain)));
                }
            }
            Ok(())
        });
        stats.merge(s4);
        failure = f4;
    }
    if failure.is_none() {
        let n = ctx.tier.pick(150_000, 6_000_000);
        let (s5, f5) = run_sharded(ctx, "transient", n, transient_strategy, |(deeps, seg), st, counting| {
            let r = Roots::new();
            check_transient(&r, deeps, seg).map_err(|m| Failure { message: m, replay: json!({"kind": "transient", "deeps": deeps, "seg": seg}) })?;
            if counting {
                st.label("joins_on_temporary_bases");
                let lens: std::collections::BTreeSet<(usize, &str)> = deeps.iter().map(|d| d.rfind('/').map(|i| (i, &d[..i])).unwrap_or((0, ""))).collect();
                let mut by_len = std::collections::BTreeMap::new();
                for (l, _) in &lens {
                    *by_len.entry(*l).or_insert(0) += 1;
                }
                if by_len.values().any(|n| *n >= 2) {
                    st.label("temporary_bases_of_equal_length_differ");
                    st.nontrivial.insert(crate::util::fnv_str(&format!("{:?}|{}", deeps, seg)));
                }
            }
            Ok(())
        });
        stats.merge(s5);
        failure = f5;
    }
    let mut unopt = json!("binary not available (VERIF_JOINDBG unset): part not run");
    if failure.is_none() {
        match unoptimised_part(None, if matches!(ctx.tier, Tier::Thorough) { "thorough" } else { "quick" }, ctx.seed) {
            Ok(Some((cases, joins))) => {
                stats.evaluations += joins;
                stats.label_n("joins_in_the_unoptimised_build(1..10^6_segments)", joins);
                unopt = json!({"cases": cases, "joins": joins, "profile": "dev: opt-level 0, overflow checks and debug assertions on", "stack": "default thread stack (2 MiB)"});
            }
            Ok(None) => {}
            Err(f) => failure = Some(f),
        }
    }
    write_evidence(
        ctx,
        "exploration",
        RULE,
        &stats,
        json!({"unoptimised_build_part": unopt, "exhaustive": true, "exhaustive_bound": format!("all token strings of <= {} tokens x {} bases (the random parts are sampled, not exhaustive)", max_tokens, BASES.len()), "regress_replayed": reg.replayed}),
        &["arguments are valid UTF-8 (&str)", "the reference resolver is the 15-line function ref_join in props/c06.rs"],
        failure.is_some() as u32,
    );
    finish(ctx, &stats, &failure, &[("distinct_nontrivial", 1000), ("rejected_trailing_slash", 100), ("chains_with_3_joins", 100), ("same_segment_on_two_bases_of_equal_length", 100), ("temporary_bases_of_equal_length_differ", 100), ("random_argument_longer_than_256_bytes", 100)])
}
