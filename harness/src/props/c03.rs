//! C03 — the namespace is always a well-formed tree (model-free invariant, untyped profile).

use super::common::*;
use crate::gen::Profile;
use crate::hist::*;

pub fn prop() -> HistProp {
    let mut opts = HistOpts::new(Profile::Untyped);
    // timestamp setters are part of the histories: they must not disturb the tree or later calls
    opts.with_time = true;
    opts.wellformed = true;
    // on overlays a second instance over the same layers must show a well-formed tree as well
    opts.twin = true;
    HistProp {
        opts,
        cfgs: || crate::gen::with_emb(crate::gen::cfg_deep()),
        max_ops: 40,
        max_prepop: 8,
        cases_quick: 2500,
        cases_thorough: 200_000,
        nontrivial: |s, _| s.wrong_typed_on_populated >= 1 && s.max_levels >= 2,
        rule: "histories vec(op,0..=40) in the UNTYPED profile (every call on every universe path incl. the root and wrong-typed targets; selectors resolved against the last observed snapshot, no model prediction) x backend stacks incl. pre-populated overlays; after every step: root is a directory, exists(p) => parent(p) is a directory, every existing universe path is reachable by recursive read_dir, walk_dir(root) = listing walk; on overlays a second OverlayFS instance over the same layers (built before the history) is probed the same way (every existing universe path reachable, nothing listed that does not exist); non-trivial = >=1 wrong-typed call executed on a non-empty directory or on a file with siblings while >=2 tree levels are populated; distinct by case hash",
        floors: vec![("distinct_nontrivial", 30), ("cfg:mem", 5), ("cfg:phys", 5), ("cfg:altroot", 5), ("cfg:overlay", 5), ("wrong_typed_calls", 200)],
        assumptions: vec![
            "removal/overwrite of the root itself may fail or succeed but must leave a root directory (root-targeted calls are generated)",
            "copy_dir/move_dir into the source's own subtree are not generated (documented non-termination)",
        ],
        exclude: crate::findings::hist_excluder("C03"),
        labeler: no_labels,
    }
}
