//! C16 — MemoryFS is linearizable under concurrent use.

use crate::engine::*;
use crate::exec::*;
use crate::model::*;
use crate::observe::snapshot;
use crate::sched::*;
use crate::util::idx;
use proptest::prelude::*;
use serde_json::{json, Value};
use std::collections::BTreeSet;
use std::sync::Arc;
use std::time::Duration;
use vfs::{MemoryFS, VfsPath};

/// universe: 4 paths only ever used as directories, 4 only as files, plus 2 mixed ones (see MIXED)
const DIRS: [&str; 4] = ["/a", "/a/b", "/c", "/a/b/d"];
const FILES: [&str; 4] = ["/a/f", "/a/b/g", "/h", "/c/k"];

#[derive(Clone, Debug, PartialEq)]
pub struct Program {
    /// initial entries (path, is_dir), ancestors are created as directories
    pub init: Vec<(String, bool)>,
    pub threads: Vec<Vec<Op>>,
    /// initial files hold 100 000 bytes instead of one (implementations may treat big buffers
    /// differently; what a concurrent reader may see does not depend on the size)
    pub big: bool,
    /// 45 unrelated files '/bulk/e<i>' exist as well (tables of a few dozen entries)
    pub many: bool,
}

fn program_strategy() -> impl Strategy<Value = Program> {
    (any::<u8>(), any::<u8>(), any::<u8>(), proptest::collection::vec(proptest::collection::vec((any::<u8>(), any::<u8>(), any::<u8>()), 1..=3), 2..=3), 0u8..8, 0u8..6)
        .prop_map(|(pre_dirs, pre_files, pre_mixed, threads, big, many)| {
            let mut init = vec![];
            for (i, d) in DIRS.iter().enumerate() {
                if pre_dirs & (1 << i) != 0 {
                    init.push((d.to_string(), true));
                }
            }
            for (i, f) in FILES.iter().enumerate() {
                if pre_files & (1 << i) != 0 {
                    init.push((f.to_string(), false));
                }
            }
            for (i, m) in MIXED.iter().enumerate() {
                match (pre_mixed >> (2 * i)) & 3 {
                    1 => init.push((m.to_string(), true)),
                    2 => init.push((m.to_string(), false)),
                    _ => {}
                }
            }
            Program { init, threads: threads.iter().map(|t| t.iter().map(call_of).collect()).collect(), big: big == 0, many: many == 0 }
        })
}

/// two paths that are used by directory calls AND by file calls (type can change over time)
const MIXED: [&str; 2] = ["/m", "/a/m"];

fn call_of(c: &(u8, u8, u8)) -> Op {
    let (k, p, d) = *c;
    let pick = |set: &[&str]| -> String {
        let i = idx((p as u16) << 8, set.len() + MIXED.len());
        if i < set.len() { set[i].to_string() } else { MIXED[i - set.len()].to_string() }
    };
    let dir = || pick(&DIRS);
    let file = || pick(&FILES);
    let bytes = || Arc::new(vec![b'A' + d % 4; 1 + (d % 3) as usize]);
    match k % 14 {
        0 | 1 => Op::CreateDir(dir()),
        2 | 3 => Op::CreateFile(file(), bytes()),
        4 => Op::Append(file(), bytes()),
        5 | 6 => Op::RemoveFile(file()),
        7 | 8 => Op::RemoveDir(dir()),
        9 => Op::Exists(if d % 2 == 0 { dir() } else { file() }),
        10 => Op::Metadata(if d % 2 == 0 { dir() } else { file() }),
        11 | 12 => Op::ReadDir(if d % 3 == 0 { String::new() } else { dir() }),
        _ => Op::Read(file()),
    }
}

fn initial_tree(p: &Program) -> Tree {
    let mut t = Tree::new();
    for (path, is_dir) in &p.init {
        if ancestors_of(path).iter().any(|a| t.is_file(a)) || t.exists(path) {
            continue;
        }
        for a in ancestors_of(path) {
            t.m.entry(a).or_insert(Node::Dir);
        }
        t.m.insert(path.clone(), if *is_dir { Node::Dir } else { Node::File(Arc::new(if p.big { vec![b'x'; 100_000] } else { b"x".to_vec() })) });
    }
    if p.many {
        t.m.insert("/bulk".to_string(), Node::Dir);
        for i in 0..45 {
            t.m.insert(format!("/bulk/e{}", i), Node::File(Arc::new(b"b".to_vec())));
        }
    }
    t
}

/// Systematic family: every 2-thread program with (1 call || 2 calls) over the calls that
/// touch one hot path (as file and as directory), its parent listing and a child, for each
/// initial state of the hot path (absent / file / directory).
pub fn family_programs() -> Vec<Program> {
    let m = "/a/m".to_string();
    let child = "/a/m/x".to_string();
    let alphabet: Vec<Op> = vec![
        Op::CreateDir(m.clone()),
        Op::RemoveDir(m.clone()),
        Op::RemoveFile(m.clone()),
        Op::CreateFile(m.clone(), Arc::new(b"N".to_vec())),
        Op::Exists(m.clone()),
        Op::Metadata(m.clone()),
        Op::Read(m.clone()),
        Op::ReadDir("/a".to_string()),
        Op::CreateDir(child.clone()),
        Op::RemoveDir(child),
        Op::RemoveDir("/a".to_string()),
        Op::Append(m.clone(), Arc::new(b"P".to_vec())),
        Op::RemoveFile("/bulk/e0".to_string()),
    ];
    let mut out = vec![];
    // initial state of the hot path: absent / file / directory / file of 100 000 bytes
    for init_kind in 0..5 {
        let mut init = vec![("/a".to_string(), true)];
        match init_kind {
            1 | 3 => init.push((m.clone(), false)),
            2 | 4 => init.push((m.clone(), true)),
            _ => {}
        }
        let big = init_kind == 3;
        // the fifth state: a directory, in a filesystem that holds 45 further files
        let many = init_kind == 4;
        for a in &alphabet {
            for b1 in &alphabet {
                for b2 in &alphabet {
                    out.push(Program { init: init.clone(), threads: vec![vec![a.clone()], vec![b1.clone(), b2.clone()]], big, many });
                }
            }
        }
    }
    out
}

/// First use: the filesystem has never been called before the threads start (whatever an instance
/// sets up lazily is set up under contention). All (1 call || 2 calls) programs over 8 calls.
pub fn first_use_programs() -> Vec<Program> {
    let alphabet: Vec<Op> = vec![
        Op::CreateDir("/a".to_string()),
        Op::CreateDir("/b".to_string()),
        Op::CreateFile("/f".to_string(), Arc::new(b"N".to_vec())),
        Op::Exists(String::new()),
        Op::ReadDir(String::new()),
        Op::Metadata(String::new()),
        Op::Exists("/a".to_string()),
        Op::CreateDir("/a/m".to_string()),
    ];
    let mut out = vec![];
    for a in &alphabet {
        for b1 in &alphabet {
            for b2 in &alphabet {
                out.push(Program { init: vec![], threads: vec![vec![a.clone()], vec![b1.clone(), b2.clone()]], big: false, many: false });
            }
        }
    }
    out
}

/// result abstraction: Ok(value) or Err
#[derive(Clone, Debug, PartialEq, Eq, PartialOrd, Ord)]
pub enum Res {
    Ok(String),
    Err,
}

fn res_of(o: &Outcome) -> Res {
    match o {
        Outcome::Ok(v) => Res::Ok(render_val(v)),
        Outcome::Err(_) => Res::Err,
        Outcome::Panic(m) => Res::Ok(format!("PANIC {}", m)),
    }
}

fn res_of_pred(p: &Predicted) -> Res {
    match &p.expect {
        Expect::Ok(v) => Res::Ok(render_val(v)),
        _ => Res::Err,
    }
}

/// all sequential outcomes: every program-order-respecting interleaving of whole calls on the model
fn sequential_outcomes(prog: &[Vec<Op>], init: &Tree) -> BTreeSet<(Vec<Vec<Res>>, Vec<String>)> {
    fn rec(prog: &[Vec<Op>], pos: &mut Vec<usize>, tree: &Tree, results: &mut Vec<Vec<Res>>, out: &mut BTreeSet<(Vec<Vec<Res>>, Vec<String>)>) {
        let mut any = false;
        for t in 0..prog.len() {
            if pos[t] < prog[t].len() {
                any = true;
                let op = &prog[t][pos[t]];
                let pred = predict(tree, op);
                let next = match &pred.effect {
                    Effect::New(n) => n.clone(),
                    _ => tree.clone(),
                };
                results[t].push(res_of_pred(&pred));
                pos[t] += 1;
                rec(prog, pos, &next, results, out);
                pos[t] -= 1;
                results[t].pop();
            }
        }
        if !any {
            out.insert((results.clone(), tree.render()));
        }
    }
    let mut out = BTreeSet::new();
    let mut pos = vec![0; prog.len()];
    let mut results = vec![vec![]; prog.len()];
    rec(prog, &mut pos, init, &mut results, &mut out);
    out
}

/// The open finding KF-3: write/append *sessions* are open-then-publish (two lock
/// acquisitions); programs that can observe or lose the intermediate state are excluded.
pub fn matches_session_finding(prog: &[Vec<Op>]) -> bool {
    for (t1, calls1) in prog.iter().enumerate() {
        for c1 in calls1 {
            let (p, is_create) = match c1 {
                Op::CreateFile(p, _) => (p, true),
                Op::Append(p, _) => (p, false),
                _ => continue,
            };
            for (t2, calls2) in prog.iter().enumerate() {
                if t1 == t2 {
                    continue;
                }
                for c2 in calls2 {
                    let hit = match c2 {
                        Op::Append(q, _) => q == p,
                        // another thread's session on p can land between open and publish
                        Op::CreateFile(q, _) => q == p,
                        Op::RemoveFile(q) => q == p,
                        Op::RemoveDir(q) => *q == parent_of(p),
                        Op::Read(q) | Op::Metadata(q) => is_create && q == p,
                        _ => false,
                    };
                    if hit {
                        return true;
                    }
                }
            }
        }
    }
    false
}

fn build_fs(init: &Tree) -> VfsPath {
    let root = VfsPath::new(MemoryFS::new());
    for (k, n) in &init.m {
        if k.is_empty() {
            continue;
        }
        let _ = crate::config::write_entry(&root, k, n);
    }
    root
}

type Worker = Box<dyn FnOnce(&dyn Fn(&'static str)) -> Vec<Outcome> + Send>;

fn make_workers(root: &VfsPath, prog: &[Vec<Op>]) -> Vec<Worker> {
    prog.iter()
        .map(|calls| {
            let root = root.clone();
            let calls = calls.clone();
            Box::new(move |boundary: &dyn Fn(&'static str)| {
                let mut out = vec![];
                for (i, c) in calls.iter().enumerate() {
                    if i > 0 {
                        boundary("call-boundary");
                    }
                    out.push(exec(&root, c));
                }
                out
            }) as Worker
        })
        .collect()
}

pub struct Verdict {
    pub stats: ExploreStats,
    pub skipped_known: bool,
    pub shared_mutation: bool,
}

pub fn check_program(p: &Program, cap: u64, max_bound: usize, random_after: u64, seed: u64, strict: bool, first_schedule: Option<&[usize]>) -> Result<Verdict, Failure> {
    let prog: Vec<Vec<Op>> = p.threads.clone();
    let init = initial_tree(p);
    let rendered: Vec<Vec<String>> = prog.iter().map(|t| t.iter().map(|c| c.render()).collect()).collect();
    let mk = |msg: String, schedule: &[usize]| Failure {
        message: format!("program {:?} on initial tree {:?}: {}\n  schedule (thread id per decision): {:?}", rendered, init.render(), msg, schedule),
        replay: json!({"kind": "c16", "program": program_to_json(p), "schedule": schedule}),
    };
    // Programs in which the open finding KF-3 can show (a lost or half-visible session) are not
    // judged against the sequential specification - but a panic, a poisoned lock or a deadlock in
    // them is a different violation and is still reported.
    let weak = !strict && matches_session_finding(&prog);
    let seq = sequential_outcomes(&prog, &init);
    // cross-check the model once against a single-threaded run of the real MemoryFS
    {
        let root = build_fs(&init);
        let mut results: Vec<Vec<Res>> = vec![vec![]; prog.len()];
        for (t, calls) in prog.iter().enumerate() {
            for c in calls {
                results[t].push(res_of(&exec(&root, c)));
            }
        }
        let fin = snapshot(&root).tree.render();
        if !seq.contains(&(results.clone(), fin.clone())) {
            return Err(mk(format!("a purely sequential run (thread after thread) of the real MemoryFS gives results {:?} / tree {:?}, which the sequential specification does not contain", results, fin), &[]));
        }
    }
    let probe_paths: Vec<String> = {
        let mut v: BTreeSet<String> = BTreeSet::new();
        for t in &prog {
            for c in t {
                v.insert(c.target().to_string());
                for a in ancestors_of(c.target()) {
                    if !a.is_empty() {
                        v.insert(a);
                    }
                }
            }
        }
        v.remove("");
        v.into_iter().collect()
    };
    let current_root: std::cell::RefCell<Option<VfsPath>> = std::cell::RefCell::new(None);
    let make = || {
        let root = build_fs(&init);
        *current_root.borrow_mut() = Some(root.clone());
        make_workers(&root, &prog)
    };
    let mut check = |ds: &[Decision], end: &RunEnd<Vec<Outcome>>| -> Result<(), String> {
        match end {
            RunEnd::Hang(t, label) => Err(format!("DEADLOCK/HANG: thread {} did not reach its next yield point after being released at '{}'", t, label)),
            RunEnd::Done(outs) => {
                for (t, o) in outs.iter().enumerate() {
                    for (i, x) in o.iter().enumerate() {
                        if let Outcome::Panic(m) = x {
                            return Err(format!("thread {} call {} ({}) panicked: {}", t, i, rendered[t][i], m));
                        }
                    }
                }
                let results: Vec<Vec<Res>> = outs.iter().map(|o| o.iter().map(res_of).collect()).collect();
                let root = current_root.borrow().clone().unwrap();
                if weak {
                    // the filesystem is still usable (no poisoned lock)
                    for q in probe_paths.iter().map(|s| s.as_str()).chain(std::iter::once("")) {
                        for o in [Op::Exists(q.to_string()), Op::Metadata(q.to_string()), Op::ReadDir(q.to_string())] {
                            if let Outcome::Panic(m) = exec(&root, &o) {
                                return Err(format!("after the program (results {:?}) the filesystem is unusable: {} panicked: {}", results, o.render(), m));
                            }
                        }
                    }
                    return Ok(());
                }
                let snap = snapshot(&root);
                if let Err(m) = snap.tree.well_formed() {
                    return Err(format!("final tree is not well-formed: {} (results {:?})", m, results));
                }
                // orphans are not reachable by listings: probe every path the program mentions
                let wf = crate::observe::well_formed(&root, &probe_paths);
                if !wf.problems.is_empty() {
                    return Err(format!("final state is not a well-formed tree: {:?} (results {:?})", wf.problems, results));
                }
                let fin = snap.tree.render();
                if !seq.contains(&(results.clone(), fin.clone())) {
                    let _ = ds;
                    return Err(format!("results {:?} with final tree {:?} match none of the {} sequential executions of these calls", results, fin, seq.len()));
                }
                Ok(())
            }
        }
    };
    if let Some(sched) = first_schedule {
        // replay of a recorded schedule comes first
        let (ds, end) = run_one(make(), sched, Duration::from_secs(10));
        if let Err(m) = check(&ds, &end) {
            return Err(mk(m, sched));
        }
    }
    let (stats, bad) = explore(&make, &mut check, cap, max_bound, random_after, seed, Duration::from_secs(10));
    if let Some((schedule, msg)) = bad {
        return Err(mk(msg, &schedule));
    }
    let paths_by_thread: Vec<BTreeSet<String>> = prog.iter().map(|t| t.iter().flat_map(|c| vec![c.target().to_string(), parent_of(c.target())]).collect()).collect();
    let mutators: Vec<bool> = prog.iter().map(|t| t.iter().any(|c| !c.is_observer())).collect();
    let mut shared = false;
    for i in 0..prog.len() {
        for j in i + 1..prog.len() {
            if mutators[i] && mutators[j] && paths_by_thread[i].intersection(&paths_by_thread[j]).next().is_some() {
                shared = true;
            }
        }
    }
    Ok(Verdict { stats, skipped_known: weak, shared_mutation: shared })
}

fn program_to_json(p: &Program) -> Value {
    json!({
        "init": p.init.iter().map(|(q, d)| json!([q, d])).collect::<Vec<_>>(),
        "big": p.big,
        "many": p.many,
        "threads": p.threads.iter().map(|t| t.iter().map(crate::props::c18::op_to_json).collect::<Vec<_>>()).collect::<Vec<_>>(),
    })
}

fn program_from_json(v: &Value) -> Option<Program> {
    Some(Program {
        init: v.get("init")?.as_array()?.iter().filter_map(|e| Some((e.get(0)?.as_str()?.to_string(), e.get(1)?.as_bool()?))).collect(),
        big: v.get("big").and_then(|x| x.as_bool()).unwrap_or(false),
        many: v.get("many").and_then(|x| x.as_bool()).unwrap_or(false),
        threads: v.get("threads")?.as_array()?.iter().map(|t| t.as_array().map(|a| a.iter().filter_map(crate::hist::op_from_json).collect()).unwrap_or_default()).collect(),
    })
}

pub fn replay(v: &Value) -> CaseResult {
    if v.get("kind").and_then(|k| k.as_str()) == Some("c16-contention") {
        return contention_stress(4000).map(|_| ());
    }
    let p = program_from_json(v.get("program").unwrap_or(&Value::Null)).ok_or_else(|| Failure { message: "unparsable C16 replay".into(), replay: v.clone() })?;
    // strict: replay explores the whole (bounded) tree of this program, known finding not excluded
    {
        let sched: Option<Vec<usize>> = v.get("schedule").and_then(|x| x.as_array()).map(|a| a.iter().filter_map(|y| y.as_u64().map(|z| z as usize)).collect());
        check_program(&p, 2500, 3, 200, 1, true, sched.as_deref()).map(|_| ())
    }
}

const RULE: &str = "programs of 2..3 threads x 1..3 calls from {create_dir, write session (create_file+write_all+drop), append session, remove_file, remove_dir, exists, metadata, read_dir, read session} over a universe of 4 directory paths, 4 file paths and 2 paths used by both kinds of calls, with overlapping prefixes, optionally pre-populated; each program's schedule tree (decision at every lock acquisition of MemoryFS and every call boundary) is enumerated depth-first with iterative preemption bounding up to the tier's cap (exhaustive when it fits), then random schedules; additionally the systematic family of all 2-thread (1 call || 2 calls) programs over 13 calls around one hot path that changes type (x 5 initial states: absent, file, directory, file of 100 000 bytes, directory in a filesystem holding 45 further files = 10985 programs; all in thorough, 2500 sampled in quick) and the first-use family (512 programs of the same shape over 8 calls on a filesystem that was never called before the threads start; complete in both tiers); one random program in eight starts from 100 000-byte files, one in six from a filesystem with 45 further files; oracle: (per-call results, final tree) of every explored schedule must be among the results of the sequential executions (all program-order-respecting interleavings of whole calls on the reference model, cross-checked against a single-threaded run of the real MemoryFS), final tree well-formed, no panic, every step reaches its next yield point within 10 s; non-trivial = program in which two threads with a mutator each touch a common path or a parent/child pair, explored with >=1 preemption; evaluations = scheduled executions; PLUS truly parallel threads (three listing a 40000-entry directory, one creating and removing entries) while open_file + metadata run 2000 (20000) times: the access time must have been refreshed by every call (contention-dependent behaviour is invisible to a cooperative scheduler)";

/// Truly parallel threads (no scheduler): while two threads list a big directory and one creates
/// and removes entries, every `open_file` must leave an access time that is not older than the
/// moment before the call - in every sequential order of whole calls it does. Reaches behaviour
/// that depends on the lock being CONTENDED, which a cooperative scheduler cannot produce.
/// `contention_stress_inner` on a detached thread: calls that block each other for ever are reported
/// (the whole part normally takes seconds)
fn contention_stress(rounds: u32) -> Result<u64, Failure> {
    let (tx, rx) = std::sync::mpsc::channel();
    std::thread::spawn(move || {
        let _ = tx.send(contention_stress_inner(rounds));
    });
    match rx.recv_timeout(std::time::Duration::from_secs(300)) {
        Ok(r) => r,
        Err(_) => Err(Failure { message: "truly parallel open_file + metadata calls next to three listing threads and one creating/removing thread made no progress for 300 s: the calls block each other (deadlock)".into(), replay: json!({"kind": "c16-contention"}) }),
    }
}

fn contention_stress_inner(rounds: u32) -> Result<u64, Failure> {
    use std::sync::atomic::{AtomicBool, Ordering};
    use std::time::{Duration, SystemTime};
    let root = VfsPath::new(MemoryFS::new());
    let fail = |m: String| Failure { message: m, replay: json!({"kind": "c16-contention"}) };
    let dir = root.join("d").map_err(|e| fail(e.to_string()))?;
    dir.create_dir().map_err(|e| fail(e.to_string()))?;
    for i in 0..40_000 {
        dir.join(format!("e{}", i)).and_then(|p| p.create_file().map(|_| ())).map_err(|e| fail(e.to_string()))?;
    }
    let f = root.join("f").map_err(|e| fail(e.to_string()))?;
    f.create_file().map_err(|e| fail(e.to_string()))?;
    std::thread::sleep(Duration::from_millis(40));
    let stop = AtomicBool::new(false);
    let passes = std::sync::atomic::AtomicU64::new(0);
    let mut checked = 0u64;
    let res: Result<(), String> = std::thread::scope(|s| {
        for _ in 0..3 {
            s.spawn(|| {
                while !stop.load(Ordering::Relaxed) {
                    let _ = dir.read_dir().map(|it| it.count());
                    passes.fetch_add(1, Ordering::Relaxed);
                }
            });
        }
        // the calls under test start once the listing threads are really running
        while passes.load(Ordering::Relaxed) < 3 {
            std::thread::yield_now();
        }
        s.spawn(|| {
            let mut i = 0u64;
            while !stop.load(Ordering::Relaxed) {
                if let Ok(p) = dir.join(format!("tmp{}", i % 7)) {
                    let _ = p.create_file();
                    let _ = p.remove_file();
                }
                i += 1;
            }
        });
        let mut out = Ok(());
        let mut stale = 0u32;
        for i in 0..rounds {
            let t0 = SystemTime::now();
            let h = f.open_file();
            let md = f.metadata();
            drop(h);
            checked += 1;
            match md {
                Ok(m) => {
                    if let Some(a) = m.accessed {
                        if a < t0 {
                            stale += 1;
                        }
                        // (a single stale observation could be a stepping wall clock)
                        if a < t0 && stale >= 3 {
                            out = Err(format!("open_file #{} returned while other threads list a 40000-entry directory and create/remove entries: the file's access time ({:?} before the call started) was not refreshed - no sequential order of the calls explains that", i, t0.duration_since(a).unwrap_or_default()));
                            break;
                        }
                    }
                }
                Err(e) => {
                    out = Err(format!("metadata failed under contention: {}", e));
                    break;
                }
            }
        }
        stop.store(true, Ordering::Relaxed);
        out
    });
    res.map_err(fail)?;
    Ok(checked)
}

pub fn run(ctx: &RunCtx) -> i32 {
    // a single case explores thousands of schedules: keep shrinking short
    let ctx = &RunCtx { shrink_iters: 48, ..ctx.clone() };
    let reg = crate::regress::run_for(&ctx.id, &replay);
    if let Some((path, msg)) = &reg.violation {
        println!("--- regression input fails ---\n{}", msg);
        println!("VIOLATION property={} replay={}", ctx.id, path);
        return 1;
    }
    let (cap, max_bound, random_after, programs) = match ctx.tier {
        Tier::Quick => (3000u64, 2usize, 300u64, 320u32),
        Tier::Thorough => (40_000, 3, 3000, 1200),
    };
    let known_open = crate::findings::open_for("C16").iter().any(|f| f.trigger == "memfs:session-open-then-publish");
    let (stats, failure) = run_sharded(ctx, "programs", programs, program_strategy, |p, st, counting| {
        let v = check_program(p, cap, max_bound, random_after, ctx.seed, !known_open, None)?;
        if counting {
            if v.skipped_known {
                st.exclude("memfs:session-open-then-publish");
                st.label_n("schedules_of_KF-3_programs_checked_for_panic_poisoning_deadlock_only", v.stats.schedules);
                return Ok(());
            }
            st.evaluations += v.stats.schedules.saturating_sub(1);
            st.label("programs_explored");
            st.label_n("schedules", v.stats.schedules);
            st.label_n("random_schedules", v.stats.random_schedules);
            if v.stats.exhausted {
                st.label("programs_with_exhausted_schedule_tree");
            }
            st.label(&format!("threads:{}", p.threads.len()));
            let nt = v.shared_mutation && v.stats.max_preemptions_seen >= 1;
            if nt {
                st.nontrivial.insert(crate::util::fnv_str(&format!("{:?}", p)));
            }
            let prog: Vec<Vec<String>> = p.threads.iter().map(|t| t.iter().map(|c| c.render()).collect()).collect();
            st.sample(json!({"program": prog, "initial": initial_tree(p).render(), "schedules": v.stats.schedules, "exhausted": v.stats.exhausted, "preemption_bound_completed": v.stats.max_bound_completed, "max_decisions": v.stats.max_decisions}), nt);
        }
        Ok(())
    });
    // systematic family: all of it in thorough, a seed-dependent sample in quick
    let (mut stats, mut failure) = (stats, failure);
    if failure.is_none() {
        let fam = family_programs();
        let total = fam.len();
        let mut chosen: Vec<Program> = match ctx.tier {
            Tier::Thorough => fam,
            Tier::Quick => {
                let mut s = ctx.seed;
                let mut v = vec![];
                for _ in 0..2500 {
                    s = crate::util::mix(s, 0xFA11);
                    v.push(fam[(s % total as u64) as usize].clone());
                }
                v
            }
        };
        // the first-use family completely in both tiers
        chosen.extend(first_use_programs());
        let shards = ctx.shards.max(1);
        let results: Vec<(Stats, Option<Failure>)> = std::thread::scope(|scope| {
            let mut hs = vec![];
            for sh in 0..shards {
                let chosen = &chosen;
                hs.push(scope.spawn(move || {
                    let mut st = Stats::default();
                    for (i, p) in chosen.iter().enumerate() {
                        if i % shards != sh {
                            continue;
                        }
                        match check_program(p, cap, max_bound.max(3), 100, ctx.seed, !known_open, None) {
                            Err(f) => return (st, Some(f)),
                            Ok(v) => {
                                if v.skipped_known {
                                    st.exclude("memfs:session-open-then-publish");
                                    st.label_n("schedules_of_KF-3_programs_checked_for_panic_poisoning_deadlock_only", v.stats.schedules);
                                    continue;
                                }
                                st.evaluations += v.stats.schedules;
                                st.label("family_programs_explored");
                                st.label_n("schedules", v.stats.schedules);
                                if v.stats.exhausted {
                                    st.label("programs_with_exhausted_schedule_tree");
                                }
                                if v.shared_mutation && v.stats.max_preemptions_seen >= 1 {
                                    st.nontrivial.insert(crate::util::fnv_str(&format!("{:?}", p)));
                                }
                            }
                        }
                    }
                    (st, None)
                }));
            }
            hs.into_iter().map(|h| h.join().unwrap()).collect()
        });
        for (s, f) in results {
            stats.merge(s);
            if failure.is_none() {
                failure = f;
            }
        }
        stats.label_n("family_size", total as u64);
    }
    if failure.is_none() {
        match contention_stress(ctx.tier.pick(2000, 20_000)) {
            Ok(n) => {
                stats.evaluations += n;
                stats.label_n("open_file_calls_under_real_contention", n);
            }
            Err(f) => failure = Some(f),
        }
    }
    write_evidence(
        ctx,
        "exploration",
        RULE,
        &stats,
        json!({"regress_replayed": reg.replayed, "known_findings_confirmed": reg.known_confirmed, "schedule_cap_per_program": cap, "max_preemption_bound": max_bound}),
        &["interleavings finer than lock acquisitions do not exist in safe code holding one lock", "programs matching the open finding KF-3 (write/append sessions are open-then-publish) are counted as excluded from the linearizability oracle; their schedules are still explored and must not panic, poison the lock or deadlock", "3-thread and 2x3 programs are preemption-bounded and sampled when their tree exceeds the cap"],
        failure.is_some() as u32,
    );
    finish(ctx, &stats, &failure, &[("distinct_nontrivial", 8), ("programs_explored", 16)])
}
