//! C20 — underlying failures are never reported as success (fault enumeration).

use crate::config::*;
use crate::engine::*;
use crate::exec::*;
use crate::gen::*;
use crate::hist::*;
use crate::model::*;
use crate::observe::*;
use crate::util::guarded;
use crate::wrap::{FaultFS, FaultPlan};
use proptest::prelude::*;
use serde_json::{json, Value};
use std::cell::Cell;
use std::sync::Arc;

#[derive(Clone, Debug)]
pub struct Case {
    pub base: HistCase,
    pub targets: Vec<RawOp>,
}

fn c20_cfgs() -> BoxedStrategy<Cfg> {
    // adapters are the subject: altroot / overlay over plain backends, adapters on adapters,
    // and plain backends for the composite path operations
    let leaf = || prop_oneof![4 => Just(Cfg::Mem), 1 => Just(Cfg::Phys)];
    let layer = prop_oneof![5 => leaf(), 1 => (leaf(), 0usize..=2).prop_map(|(c, d)| Cfg::Alt(Box::new(c), d)), 1 => proptest::collection::vec(leaf(), 1..=2).prop_map(Cfg::Ovl)];
    let ovl = proptest::collection::vec(layer, 1..=3).prop_map(Cfg::Ovl);
    prop_oneof![
        2 => leaf(),
        2 => (leaf(), 0usize..=2).prop_map(|(c, d)| Cfg::Alt(Box::new(c), d)),
        5 => ovl.clone(),
        2 => (ovl, 0usize..=2).prop_map(|(c, d)| Cfg::Alt(Box::new(c), d)),
        1 => (leaf(), 2usize..=3).prop_map(|(c, n)| Cfg::OvlSub(Box::new(c), n)),
    ]
    .boxed()
}

fn strategy() -> impl Strategy<Value = Case> {
    (hist_strategy(c20_cfgs(), 12, 10), proptest::collection::vec(rawop_strategy(), 1..=2)).prop_map(|(base, targets)| Case { base, targets })
}

/// targets are biased towards composites and observers
fn target_kind(raw: &RawOp) -> usize {
    const KINDS: [usize; 24] = [11, 12, 13, 14, 15, 16, 17, 18, 11, 12, 15, 16, 17, 18, 14, 0, 1, 2, 3, 4, 5, 6, 7, 8];
    KINDS[(raw.kind as usize) % KINDS.len()]
}

struct Replica {
    built: Built,
    plan: Arc<FaultPlan>,
}

thread_local! {
    /// the current case runs its targets on a NEW OverlayFS instance over the layers the history
    /// was executed on (a re-opened overlay: whatever an instance caches must be rebuilt correctly,
    /// also when the very first calls it makes fail)
    static FRESH_INSTANCE: Cell<bool> = Cell::new(false);
}

fn replica(cfg: &Cfg, prepop: &Prepop, prefix: &[Op]) -> Result<Replica, String> {
    let plan = FaultPlan::new();
    let counter = Cell::new(0usize);
    let p2 = plan.clone();
    let built = build_full(cfg, prepop, &|fs, _| plain_root(&fs), &move |fs| {
        let id = counter.get();
        counter.set(id + 1);
        Arc::new(FaultFS { inner: fs, layer: id, plan: p2.clone() })
    })?;
    let mut built = built;
    for op in prefix {
        let _ = exec(&built.root, op);
    }
    if FRESH_INSTANCE.with(|f| f.get()) && matches!(cfg, Cfg::Ovl(_) | Cfg::OvlSub(..)) && !built.layers.is_empty() && !prefix.is_empty() {
        built.root = vfs::VfsPath::new(vfs::OverlayFS::new(&built.layers));
    }
    Ok(Replica { built, plan })
}

/// fault-free calls run after a faulted call that reported success: they touch the target, its
/// destination and their parents in ways that expose leftovers hidden from the listing
fn follow_ups(target: &Op) -> Vec<Op> {
    let mut v = vec![];
    let mut paths = vec![target.target().to_string()];
    if let Some(d) = target.dest() {
        paths.push(d.to_string());
    }
    for p in paths {
        if p.is_empty() {
            continue;
        }
        let parent = parent_of(&p);
        v.push(Op::Exists(p.clone()));
        v.push(Op::Append(p.clone(), std::sync::Arc::new(b"z".to_vec())));
        v.push(Op::Read(p.clone()));
        v.push(Op::CreateDir(p.clone()));
        v.push(Op::CreateDirAll(format!("{}/q", p)));
        v.push(Op::ReadDir(parent.clone()));
        v.push(Op::RemoveDirAll(p.clone()));
        v.push(Op::RemoveFile(p.clone()));
        v.push(Op::CreateFile(p.clone(), std::sync::Arc::new(b"n".to_vec())));
        if !parent.is_empty() {
            v.push(Op::RemoveDirAll(parent.clone()));
            v.push(Op::CreateDirAll(parent));
        }
    }
    v.push(Op::WalkDir(String::new()));
    v
}

fn lowers(r: &Replica) -> Vec<Tree> {
    r.built.layers.iter().skip(1).map(|l| snapshot(l).tree).collect()
}

fn test(case: &Case, st: &mut Stats, counting: bool, handle_io: bool) -> CaseResult {
    let (pool, depth) = effective(&case.base);
    let uni = universe(&pool, depth);
    let ctx = Ctx { pool: &pool, depth, uni: &uni };
    let nlayers = case.base.cfg.overlay_layers().max(1);
    let prepop = make_prepop(&case.base.prepop, &pool, depth, nlayers);
    let cfg = &case.base.cfg;
    let mut trace: Vec<String> = vec![];
    let mut local = Stats::default();
    let r = guarded(|| -> Result<(), (String, Value)> {
        let noinfo = |m: String| (m, json!({}));
        // resolve the prefix once, on a first replica
        let fresh = matches!(cfg, Cfg::Ovl(_) | Cfg::OvlSub(..)) && (case.base.ops.len() + case.targets.len()) % 2 == 0;
        FRESH_INSTANCE.with(|f| f.set(fresh));
        if fresh {
            local.label("cases_with_targets_on_a_new_overlay_instance_over_the_used_layers");
        }
        let first = replica(cfg, &prepop, &[]).map_err(noinfo)?;
        let mut model = snapshot(&first.built.root).tree;
        let mut prefix: Vec<Op> = vec![];
        for raw in &case.base.ops {
            let op = resolve(raw, &model, &ctx, Profile::Typed, false);
            if removes_root(&op) {
                continue;
            }
            let out = exec(&first.built.root, &op);
            trace.push(format!("(prefix) {} -> {}", op.render(), out.class_str()));
            prefix.push(op);
            model = snapshot(&first.built.root).tree;
        }
        drop(first);
        for traw in &case.targets {
            let target = resolve_kind(target_kind(traw), traw, &model, &ctx, Profile::Typed);
            if removes_root(&target) {
                continue;
            }
            // fault-free reference run
            let r0 = replica(cfg, &prepop, &prefix).map_err(noinfo)?;
            let low_before = lowers(&r0);
            r0.plan.arm(-1, handle_io);
            let out_star = exec(&r0.built.root, &target);
            let n = r0.plan.disarm();
            let s_star = snapshot(&r0.built.root).tree;
            if let Outcome::Panic(m) = &out_star {
                return Err((format!("{} panicked without any fault: {}", target.render(), m), json!({"k": -1, "target": target.render()})));
            }
            if lowers(&r0) != low_before {
                return Err((format!("{} modified a lower layer (no fault injected)", target.render()), json!({"k": -1, "target": target.render()})));
            }
            trace.push(format!("TARGET {} -> {} making {} underlying calls", target.render(), out_star.class_str(), n));
            local.label(&format!("target:{}", target.kind()));
            local.label_n("underlying_calls_of_targets", n);
            let n_cap = n.min(400);
            if n > n_cap {
                local.label("targets_truncated_at_400_positions");
            }
            drop(r0);
            for k in 0..n_cap {
                let rk = replica(cfg, &prepop, &prefix).map_err(noinfo)?;
                let low_before = lowers(&rk);
                rk.plan.arm(k as i64, handle_io);
                let out = exec(&rk.built.root, &target);
                rk.plan.disarm();
                let fired = rk.plan.fired.lock().unwrap().clone();
                local.evaluations += 1;
                let info = json!({"k": k, "target": target.render(), "faulted_call": fired.as_ref().map(|(l, m, p)| format!("leaf{}:{}('{}')", l, m, p))});
                let desc = || format!("{} with underlying call #{} ({}) failing", target.render(), k, fired.as_ref().map(|(l, m, p)| format!("{}('{}') on leaf {}", m, p, l)).unwrap_or_else(|| "not reached".into()));
                match &out {
                    Outcome::Panic(m) => return Err((format!("{}: PANIC {}", desc(), m), info)),
                    Outcome::Err(_) => {
                        local.label("faulted_runs_returning_err");
                    }
                    Outcome::Ok(v) => {
                        // success is only acceptable with the full effect, by whatever route
                        match &out_star {
                            Outcome::Ok(v_star) => {
                                let same_val = match (v, v_star) {
                                    (Val::Walk(a), Val::Walk(b)) => {
                                        let (mut a, mut b) = (a.clone(), b.clone());
                                        a.sort();
                                        b.sort();
                                        a == b
                                    }
                                    _ => v == v_star,
                                };
                                if !same_val {
                                    return Err((format!("{}: returned Ok({}) but the fault-free result is Ok({})", desc(), render_val(v), render_val(v_star)), info));
                                }
                            }
                            other => {
                                return Err((format!("{}: returned Ok({}) although the fault-free run fails with {}", desc(), render_val(v), other.render()), info));
                            }
                        }
                        let s = snapshot(&rk.built.root).tree;
                        if s != s_star {
                            return Err((format!("{}: reported success but the effect is partial or wrong: {:?}", desc(), diff_trees(&s_star, &s)), info));
                        }
                        // The visible tree is right - but is the state behind it? The same fault-free
                        // follow-up calls on this replica and on a replica that never saw a fault
                        // must have the same outcomes and leave the same trees.
                        if fired.is_some() {
                            let follow = follow_ups(&target);
                            let rref = replica(cfg, &prepop, &prefix).map_err(noinfo)?;
                            rref.plan.arm(-1, false);
                            let _ = exec(&rref.built.root, &target);
                            for f in &follow {
                                let (oa, ob) = (exec(&rk.built.root, f), exec(&rref.built.root, f));
                                if let Outcome::Panic(m) = &oa {
                                    return Err((format!("{}: reported success; afterwards {} panicked: {}", desc(), f.render(), m), info));
                                }
                                if oa.class_str() != ob.class_str() {
                                    return Err((format!("{}: reported success and the tree looks right, but afterwards {} gives {} where it gives {} after a fault-free run", desc(), f.render(), oa.render(), ob.render()), info));
                                }
                                let (ta, tb) = (snapshot(&rk.built.root).tree, snapshot(&rref.built.root).tree);
                                if ta != tb {
                                    return Err((format!("{}: reported success and the tree looks right, but after the follow-up {} the tree differs from the one after a fault-free run: {:?}", desc(), f.render(), diff_trees(&tb, &ta)), info));
                                }
                            }
                            rref.plan.disarm();
                            local.label_n("follow_up_calls_after_ok_under_fault", follow.len() as u64);
                        }
                        local.label(if fired.is_some() { "faulted_runs_ok_with_full_effect" } else { "fault_position_not_reached" });
                    }
                }
                if lowers(&rk) != low_before {
                    return Err((format!("{}: a lower overlay layer was modified", desc()), info));
                }
                if let Some((leaf, method, _)) = &fired {
                    local.label(if *leaf == 0 { "fault_in_leaf0_upper_or_only" } else { "fault_in_lower_or_inner_leaf" });
                    if cfg.contains_alt() {
                        local.label("fault_behind_altroot");
                    }
                    if k >= 1 && n >= 2 {
                        local.nontrivial.insert(crate::util::fnv_str(&format!("{}|{}|{}", cfg.render(), target.render(), k)));
                    }
                    local.label(&format!("faulted_method:{}", method));
                }
            }
        }
        Ok(())
    });
    let mk = |msg: String, info: Value| Failure {
        message: format!("stack {} (every leaf wrapped in FaultFS): {}\n  trace:\n    {}", cfg.render(), msg, trace.join("\n    ")),
        replay: json!({"kind": "c20", "case": case.base.to_json(), "targets": case.targets.iter().map(rawop_to_json).collect::<Vec<_>>(), "handle_io": handle_io, "fault": info}),
    };
    match r {
        Err(p) => Err(mk(format!("PANIC outside a guarded call: {}", p), json!({}))),
        Ok(Err((m, info))) => Err(mk(m, info)),
        Ok(Ok(())) => {
            if counting {
                let evals = local.evaluations;
                local.evaluations = 0;
                st.evaluations += evals.saturating_sub(1);
                let nt = !local.nontrivial.is_empty();
                st.merge(local);
                st.label(&format!("cfg:{}", cfg.top()));
                st.sample(json!({"stack": cfg.render(), "trace": trace.iter().rev().take(6).rev().collect::<Vec<_>>()}), nt);
            }
            Ok(())
        }
    }
}

pub fn replay(v: &Value) -> CaseResult {
    if v.get("kind").and_then(|k| k.as_str()) == Some("c20-async") {
        let case = AsyncCase {
            cfg: Cfg::from_json(v.get("cfg").unwrap_or(&Value::Null)).unwrap_or(Cfg::Mem),
            pool_sel: v.get("pool_sel").and_then(|x| x.as_u64()).unwrap_or(0) as u8,
            prepop: v.get("prepop").and_then(|x| x.as_array()).map(|a| a.iter().filter_map(entry_from_json).collect()).unwrap_or_default(),
            target: v.get("target").and_then(|x| x.as_u64()).unwrap_or(0) as u8,
            plan_seed: v.get("plan_seed").and_then(|x| x.as_str()).and_then(|x| x.parse().ok()).unwrap_or(0),
        };
        let mut st = Stats::default();
        return crate::asyncfs::with_stdout_silenced(|| test_async(&case, &mut st, false));
    }
    let base = HistCase::from_json(v.get("case").unwrap_or(&Value::Null)).ok_or_else(|| Failure { message: "unparsable C20 replay".into(), replay: v.clone() })?;
    let targets = v.get("targets").and_then(|x| x.as_array()).map(|a| a.iter().filter_map(rawop_from_json).collect()).unwrap_or_default();
    let handle_io = v.get("handle_io").and_then(|x| x.as_bool()).unwrap_or(false);
    let mut st = Stats::default();
    test(&Case { base, targets }, &mut st, false, handle_io)
}

const RULE: &str = "stacks (plain backend, altroot, overlay with 1..3 layers incl. altroot/overlay layers, altroot over overlay, overlay on sub-paths) with EVERY leaf backend wrapped in FaultFS; a generated history of <=12 ops establishes a state, then 1..2 target ops (for half of the top-level overlays on a NEW OverlayFS instance constructed over the layers the history ran on; biased to create_dir_all, remove_dir_all, copy/move file/dir, walk_dir, read_to_string, plus adapter primitives and observers) are run: first fault-free on a replica to count the N trait calls reaching any leaf and to record result R* and post-state S*, then for EVERY k<N (cap 400) on a fresh replica rebuilt by deterministic replay with the k-th call failing with an I/O error (a second pass also counts and fails the reads/writes on file handles handed out by the wrapped filesystems); oracle per injection: no panic, lower overlay layers unchanged, and if the faulted run returns Ok then R* is Ok, the value equals R* and the tree observed with faults disarmed equals S*, and a fixed list of fault-free follow-up calls on the target, its destination and their parents has the same outcomes and leaves the same trees as after a fault-free run (state hidden behind a right-looking listing); PLUS the same enumeration on the async port: memory-backed stacks with every leaf behind PendFS (Pending returns per a generated plan, then the k-th trait call fails), targets walk_dir / copy_dir / move_dir / remove_dir_all / copy_file / create_dir_all, every k < N (cap 250): Ok only with the fault-free value and tree; evaluations = injections; non-trivial = injection at k>=1 into a target making >=2 underlying calls, distinct by (stack, target, k)";

// ---------------------------------------------------------------------------------------------
// the same enumeration on the async port (faults injected by PendFS after its Pending returns)
// ---------------------------------------------------------------------------------------------

#[derive(Clone, Debug)]
pub struct AsyncCase {
    pub cfg: Cfg,
    pub pool_sel: u8,
    pub prepop: Vec<RawEntry>,
    pub target: u8,
    pub plan_seed: u64,
}

fn async_strategy() -> impl Strategy<Value = AsyncCase> {
    let cfgs = prop_oneof![
        3 => Just(Cfg::Mem),
        1 => Just(Cfg::Alt(Box::new(Cfg::Mem), 1)),
        3 => Just(Cfg::Ovl(vec![Cfg::Mem, Cfg::Mem])),
        1 => Just(Cfg::Ovl(vec![Cfg::Mem, Cfg::Mem, Cfg::Mem])),
        1 => Just(Cfg::OvlSub(Box::new(Cfg::Mem), 2)),
    ];
    (cfgs, any::<u8>(), prepop_strategy(10), 0u8..10, any::<u64>()).prop_map(|(cfg, pool_sel, prepop, target, plan_seed)| AsyncCase { cfg, pool_sel, prepop, target, plan_seed })
}

fn async_case_json(c: &AsyncCase) -> Value {
    json!({"kind": "c20-async", "cfg": c.cfg.to_json(), "pool_sel": c.pool_sel, "prepop": c.prepop.iter().map(entry_to_json).collect::<Vec<_>>(), "target": c.target, "plan_seed": c.plan_seed.to_string()})
}

fn test_async(case: &AsyncCase, st: &mut Stats, counting: bool) -> CaseResult {
    use crate::asyncfs::*;
    let pools: [&[&str]; 3] = [&["a", "b", "c"], &["a", "ab", "ü"], &["d", "e.f", "a"]];
    let pool: Vec<String> = pools[(case.pool_sel % 3) as usize].iter().map(|s| s.to_string()).collect();
    let nlayers = case.cfg.overlay_layers().max(1);
    let mut prepop = make_prepop(&case.prepop, &pool, 3, nlayers);
    // a guaranteed two-level source directory
    prepop.push((nlayers - 1, "/src/sub/deep".to_string(), Node::File(std::sync::Arc::new(b"deep".to_vec()))));
    prepop.push((0, "/src/top".to_string(), Node::File(std::sync::Arc::new(b"top".to_vec()))));
    let target = match case.target {
        0 | 1 => Op::WalkDir(String::new()),
        2 => Op::WalkDir("/src".into()),
        3 | 4 => Op::CopyDir("/src".into(), "/dst".into()),
        5 | 6 => Op::MoveDir("/src".into(), "/dst".into()),
        7 => Op::RemoveDirAll("/src".into()),
        8 => Op::CopyFile("/src/sub/deep".into(), "/copy".into()),
        _ => Op::CreateDirAll("/src/sub/x/y".into()),
    };
    let runtime = tokio::runtime::Builder::new_current_thread().build().unwrap();
    let mut injections = 0u64;
    let res: Result<(), (String, i64)> = runtime.block_on(async {
        let e0 = |m: String| (m, -1i64);
        let plan0 = PendPlan::new(case.plan_seed);
        let a0 = abuild(&case.cfg, &prepop, Some(plan0.clone())).await.map_err(e0)?;
        plan0.arm(-1);
        let out_star = aexec(&a0.root, &target).await;
        let n = plan0.disarm();
        let s_star = asnapshot(&a0.root).await.tree;
        if let Outcome::Panic(m) = &out_star {
            return Err((format!("{} panicked without any fault: {}", target.render(), m), -1));
        }
        for k in 0..n.min(250) as i64 {
            let plan = PendPlan::new(case.plan_seed);
            let ak = abuild(&case.cfg, &prepop, Some(plan.clone())).await.map_err(e0)?;
            plan.arm(k);
            let out = futures::FutureExt::catch_unwind(std::panic::AssertUnwindSafe(aexec(&ak.root, &target))).await;
            plan.disarm();
            injections += 1;
            let fired = plan.fired.lock().unwrap().clone();
            let desc = format!("async {} with underlying call #{} ({}) failing", target.render(), k, fired.clone().unwrap_or_else(|| "not reached".into()));
            match out {
                Err(_) => return Err((format!("{}: PANIC", desc), k)),
                Ok(Outcome::Panic(m)) => return Err((format!("{}: PANIC {}", desc, m), k)),
                Ok(Outcome::Err(_)) => {}
                Ok(Outcome::Ok(v)) => {
                    if fired.is_none() {
                        continue;
                    }
                    match &out_star {
                        Outcome::Ok(v_star) => {
                            let same = match (&v, v_star) {
                                (Val::Walk(a), Val::Walk(b)) => {
                                    let (mut a, mut b) = (a.clone(), b.clone());
                                    a.sort();
                                    b.sort();
                                    a == b
                                }
                                _ => &v == v_star,
                            };
                            if !same {
                                return Err((format!("{}: returned Ok({}) but the fault-free result is Ok({})", desc, render_val(&v), render_val(v_star)), k));
                            }
                        }
                        other => return Err((format!("{}: returned Ok although the fault-free run gives {}", desc, other.render()), k)),
                    }
                    let s = asnapshot(&ak.root).await.tree;
                    if s != s_star {
                        return Err((format!("{}: reported success but the effect is partial or wrong: {:?}", desc, diff_trees(&s_star, &s)), k));
                    }
                }
            }
        }
        Ok(())
    });
    drop(runtime);
    match res {
        Err((m, k)) => {
            let mut r = async_case_json(case);
            r["k"] = json!(k);
            Err(Failure { message: format!("stack {} (async, every leaf behind PendFS): {}", case.cfg.render(), m), replay: r })
        }
        Ok(()) => {
            if counting {
                st.evaluations += injections.saturating_sub(1);
                st.label_n("async_fault_injections", injections);
                st.label(&format!("async_target:{}", target.kind()));
            }
            Ok(())
        }
    }
}

pub fn run(ctx: &RunCtx) -> i32 {
    let reg = crate::regress::run_for(&ctx.id, &replay);
    if let Some((path, msg)) = &reg.violation {
        println!("--- regression input fails ---\n{}", msg);
        println!("VIOLATION property={} replay={}", ctx.id, path);
        return 1;
    }
        let (mut stats, mut failure) = run_sharded(ctx, "faults", ctx.tier.pick(2500, 120_000), strategy, |c, st, counting| test(c, st, counting, false));
    if failure.is_none() {
        // also fail the k-th read/write on file handles handed out by the wrapped filesystems
        let (s2, f2) = run_sharded(ctx, "faults-io", ctx.tier.pick(800, 30_000), strategy, |c, st, counting| test(c, st, counting, true));
        stats.merge(s2);
        failure = f2;
    }
    if failure.is_none() {
        let (s3, f3) = crate::asyncfs::with_stdout_silenced(|| run_sharded(ctx, "faults-async", ctx.tier.pick(300, 8000), async_strategy, test_async));
        stats.merge(s3);
        failure = f3;
    }
    write_evidence(
        ctx,
        "fault_enumeration",
        RULE,
        &stats,
        json!({"regress_replayed": reg.replayed, "exhaustive": false, "note": "every fault position k of every explored target is enumerated (exhaustive per target up to the cap); histories and targets are sampled"}),
        &["one fault per run", "PhysicalFS's own Path::exists() hides OS errors below the trait; faults are injected at the FileSystem-trait boundary", "an Err (or yielded Err) with any partial state is acceptable"],
        failure.is_some() as u32,
    );
    finish(ctx, &stats, &failure, &[("distinct_nontrivial", 500), ("fault_in_leaf0_upper_or_only", 100), ("fault_in_lower_or_inner_leaf", 100), ("fault_behind_altroot", 100)])
}
