//! C18 — EmbeddedFS is a faithful read-only view of the embedded folder.

use crate::embed::{fixture_dir, Fixture};
use crate::engine::*;
use crate::exec::*;
use crate::model::*;
use crate::observe::*;
use crate::util::guarded;
use serde_json::{json, Value};
use std::collections::BTreeSet;
use std::sync::Arc;
use vfs::{EmbeddedFS, PhysicalFS, VfsPath};

fn raw_model() -> Tree {
    crate::embed::fixture_tree()
}

/// the exhaustive path set: every entry, the root, near-misses, paths below files, case variants
fn path_set(model: &Tree) -> Vec<(String, &'static str)> {
    let mut out: Vec<(String, &'static str)> = vec![(String::new(), "root")];
    let mut seen: BTreeSet<String> = BTreeSet::new();
    seen.insert(String::new());
    let mut add = |p: String, class: &'static str, out: &mut Vec<(String, &'static str)>| {
        // keep canonical: no empty, '.' or '..' components, no trailing slash
        if p.is_empty() || p[1..].split('/').any(|c| c.is_empty() || c == "." || c == "..") {
            return;
        }
        if seen.insert(p.clone()) {
            out.push((p, class));
        }
    };
    for (k, n) in &model.m {
        if k.is_empty() {
            continue;
        }
        add(k.clone(), if n.is_dir() { "dir" } else { "file" }, &mut out);
    }
    let existing: Vec<(String, bool)> = model.m.iter().filter(|(k, _)| !k.is_empty()).map(|(k, n)| (k.clone(), n.is_dir())).collect();
    for (k, is_dir) in &existing {
        let par = parent_of(k);
        let name = name_of(k).to_string();
        let chars: Vec<char> = name.chars().collect();
        // one character added / removed / changed
        add(format!("{}/{}x", par, name), "near-miss", &mut out);
        add(format!("{}/x{}", par, name), "near-miss", &mut out);
        add(format!("{}/{}.", par, name), "near-miss", &mut out);
        add(format!("{}/{}..", par, name), "near-miss", &mut out);
        add(format!("{}/.{}", par, name), "near-miss", &mut out);
        if chars.len() > 1 {
            add(format!("{}/{}", par, chars[..chars.len() - 1].iter().collect::<String>()), "near-miss", &mut out);
            add(format!("{}/{}", par, chars[1..].iter().collect::<String>()), "near-miss", &mut out);
            let mut c2 = chars.clone();
            c2[0] = if c2[0] == 'q' { 'w' } else { 'q' };
            add(format!("{}/{}", par, c2.iter().collect::<String>()), "near-miss", &mut out);
        }
        let upper = name.to_uppercase();
        if upper != name {
            add(format!("{}/{}", par, upper), "near-miss", &mut out);
        }
        if !*is_dir {
            add(format!("{}/a", k), "below-file", &mut out);
            add(format!("{}/a/b", k), "below-file", &mut out);
            add(format!("{}/{}", k, name), "below-file", &mut out);
        } else {
            add(format!("{}/nope", k), "absent-child", &mut out);
            add(format!("{}/nope/deeper", k), "absent-child", &mut out);
        }
    }
    out
}

fn random_paths(n: usize, seed: u64, model: &Tree) -> Vec<(String, &'static str)> {
    // components over the fixture's alphabet
    let mut comps: Vec<String> = model.m.keys().flat_map(|k| k.split('/').filter(|c| !c.is_empty()).map(|c| c.to_string()).collect::<Vec<_>>()).collect();
    comps.sort();
    comps.dedup();
    comps.extend(["x".to_string(), "..x".to_string(), "a.".to_string(), "é".to_string(), " ".to_string()]);
    let mut out = vec![];
    let mut s = seed;
    for _ in 0..n {
        let mut p = String::new();
        s = crate::util::mix(s, 0x9E37);
        let depth = 1 + (s % 5) as usize;
        for _ in 0..depth {
            s = crate::util::mix(s, 0xABCD);
            p.push('/');
            p.push_str(&comps[(s % comps.len() as u64) as usize]);
        }
        out.push((p, "random"));
    }
    out
}

fn observer_ops(p: &str) -> Vec<Op> {
    let p = p.to_string();
    vec![
        Op::Exists(p.clone()),
        Op::IsFile(p.clone()),
        Op::IsDir(p.clone()),
        Op::Metadata(p.clone()),
        Op::Read(p.clone()),
        Op::ReadToString(p.clone()),
        Op::ReadDir(p.clone()),
        Op::WalkDir(p),
    ]
}

fn mutator_ops(p: &str, other: &str) -> Vec<Op> {
    let p = p.to_string();
    let o = other.to_string();
    let b = Arc::new(b"new".to_vec());
    vec![
        Op::CreateDir(p.clone()),
        Op::CreateDirAll(p.clone()),
        Op::CreateFile(p.clone(), b.clone()),
        Op::Append(p.clone(), b),
        Op::RemoveFile(p.clone()),
        Op::RemoveDir(p.clone()),
        Op::RemoveDirAll(p.clone()),
        Op::CopyFile(p.clone(), o.clone()),
        Op::MoveFile(p.clone(), o.clone()),
        Op::CopyDir(p.clone(), o.clone()),
        Op::MoveDir(p.clone(), o.clone()),
        Op::CopyFile(o.clone(), p.clone()),
        Op::MoveDir(o, p.clone()),
        Op::SetTime(p.clone(), TimeField::Created, 1_000_000, 0),
        Op::SetTime(p.clone(), TimeField::Modified, 1_000_000, 5),
        Op::SetTime(p, TimeField::Accessed, 1_000_000, 7),
    ]
}

fn mk_fail(op: &Op, msg: String) -> Failure {
    Failure { message: format!("EmbeddedFS {}: {}", op.render(), msg), replay: json!({"kind": "c18", "op": op_to_json(op)}) }
}

pub fn op_to_json(op: &Op) -> Value {
    match op {
        Op::CreateFile(p, b) => json!(["create_file", p, format!("hex:{}", crate::util::hex(b))]),
        Op::Append(p, b) => json!(["append_file", p, format!("hex:{}", crate::util::hex(b))]),
        Op::SetTime(p, f, s, n) => json!(["set_time", p, format!("{:?}", f).to_lowercase(), s, n]),
        _ => match op.dest() {
            Some(d) => json!([op.kind(), op.target(), d]),
            None => json!([op.kind(), op.target()]),
        },
    }
}

struct Env {
    emb: VfsPath,
    phys: VfsPath,
    model: Tree,
    base_snap: Tree,
}

/// Two embedded types in one process: the second folder's filesystem is constructed FIRST and
/// must show exactly its own folder - before and after the main fixture's filesystem exists.
fn check_second_type(when: &str) -> Result<(), String> {
    let emb2 = VfsPath::new(EmbeddedFS::<crate::embed::Fixture2>::new());
    let got = snapshot(&emb2);
    let want = crate::embed::fixture2_tree();
    if got.tree != want {
        return Err(format!("the EmbeddedFS of the second embedded folder ({}) does not show that folder: {:?}", when, diff_trees(&want, &got.tree)));
    }
    Ok(())
}

fn env() -> Result<Env, String> {
    check_second_type("constructed first")?;
    let model = raw_model();
    let emb = VfsPath::new(EmbeddedFS::<Fixture>::new());
    check_second_type("constructed again after the main fixture's filesystem")?;
    // the Default constructor is a public way to obtain the same filesystem
    let by_default = VfsPath::new(<EmbeddedFS<Fixture> as Default>::default());
    let sd = snapshot(&by_default);
    if sd.tree != model {
        return Err(format!("EmbeddedFS::default() does not show the embedded folder: {:?}", diff_trees(&model, &sd.tree).into_iter().take(4).collect::<Vec<_>>()));
    }
    let phys = VfsPath::new(PhysicalFS::new(fixture_dir()));
    let s = snapshot(&emb);
    Ok(Env { emb, phys, model, base_snap: s.tree })
}

fn check_observer(env: &Env, op: &Op) -> Result<(), Failure> {
    let e = exec(&env.emb, op);
    let p = exec(&env.phys, op);
    if let Outcome::Panic(m) = &e {
        return Err(mk_fail(op, format!("panicked: {}", m)));
    }
    // reference 1: the independent model
    let pred = predict(&env.model, op);
    judge(&pred.expect, &e).map_err(|m| mk_fail(op, format!("vs the folder walked with std::fs: {}", m)))?;
    // for files: a handle that was moved first must deliver the remainder, like the physical one
    if let (Op::Read(path), Some(Node::File(bytes))) = (op, env.model.get(op.target())) {
        use std::io::{Read, Seek, SeekFrom};
        let run = |root: &VfsPath| -> Result<(Vec<u8>, Vec<u8>), String> {
            let mut h = at(root, path).map_err(|e| e.to_string())?.open_file().map_err(|e| e.to_string())?;
            let mut head = vec![0u8; bytes.len().min(3)];
            h.read_exact(&mut head).map_err(|e| e.to_string())?;
            h.seek(SeekFrom::Start((bytes.len() / 2) as u64)).map_err(|e| e.to_string())?;
            let mut rest = vec![];
            h.read_to_end(&mut rest).map_err(|e| e.to_string())?;
            Ok((head, rest))
        };
        let a = guarded(|| run(&env.emb)).map_err(|m| mk_fail(op, format!("handle use panicked: {}", m)))?;
        let b = run(&env.phys);
        if a != b {
            return Err(mk_fail(op, format!("a read handle that read 3 bytes, seeked to the middle and read to the end delivers {:?} but the PhysicalFS handle delivers {:?}", a.as_ref().map(|(h, r)| (h.len(), r.len())), b.as_ref().map(|(h, r)| (h.len(), r.len())))));
        }
    }
    // listings are Iterators: consumed through nth/skip/step_by/last/count, through the path API and
    // through the FileSystem trait itself, they deliver the same names as plain iteration
    if let (Op::ReadDir(path), Some(Node::Dir)) = (op, env.model.get(op.target())) {
        use vfs::FileSystem;
        let raw = EmbeddedFS::<Fixture>::new();
        let r = guarded(|| {
            crate::util::listing_iterator_contract(&|| raw.read_dir(path).ok().map(|i| Box::new(i) as Box<dyn Iterator<Item = String>>))?;
            let dp = at(&env.emb, path).map_err(|e| e.to_string())?;
            crate::util::listing_iterator_contract(&|| dp.read_dir().ok().map(|i| Box::new(i.map(|c| c.filename())) as Box<dyn Iterator<Item = String>>))
        })
        .map_err(|m| mk_fail(op, format!("listing use panicked: {}", m)))?;
        r.map_err(|m| mk_fail(op, format!("the listing iterator of the embedded filesystem: {}", m)))?;
    }
    // reference 2: PhysicalFS on the same folder
    match (&e, &p) {
        (Outcome::Ok(a), Outcome::Ok(b)) => {
            let same = match (a, b) {
                (Val::Walk(x), Val::Walk(y)) => {
                    let (mut x, mut y) = (x.clone(), y.clone());
                    x.sort();
                    y.sort();
                    x == y
                }
                _ => a == b,
            };
            if !same {
                return Err(mk_fail(op, format!("returns {} but PhysicalFS on the same folder returns {}", render_val(a), render_val(b))));
            }
        }
        (Outcome::Err(_), Outcome::Err(_)) => {}
        _ => return Err(mk_fail(op, format!("gives {} but PhysicalFS on the same folder gives {}", e.render(), p.render()))),
    }
    Ok(())
}

fn check_mutator(env: &Env, op: &Op, deep: bool, uni: &[String]) -> Result<bool, Failure> {
    let out = exec(&env.emb, op);
    let pred = predict(&env.model, op);
    let would_succeed_with_effect = matches!(&pred.expect, Expect::Ok(_)) && matches!(&pred.effect, Effect::New(t) if *t != env.model);
    let noop_success = (matches!(&pred.expect, Expect::Ok(_)) && !would_succeed_with_effect) || matches!(op, Op::CreateDirAll(p) if p.is_empty());
    let mut not_supported = false;
    match &out {
        Outcome::Panic(m) => return Err(mk_fail(op, format!("panicked: {}", m))),
        Outcome::Ok(v) => {
            if !noop_success {
                return Err(mk_fail(op, format!("a mutating call returned Ok({}) on a read-only filesystem", render_val(v))));
            }
        }
        Outcome::Err(e) => {
            if matches!(op, Op::SetTime(..)) && env.model.exists(op.target()) && e.class != ErrClass::NotSupported {
                return Err(mk_fail(op, format!("timestamp setter on an existing entry must be refused as NotSupported, got {}", out.render())));
            }
            if would_succeed_with_effect {
                if e.class != ErrClass::NotSupported {
                    return Err(mk_fail(op, format!("the call would succeed on a writable backend, so it must be refused as NotSupported, got {}", out.render())));
                }
                not_supported = true;
            }
        }
    }
    // nothing changed
    let s = if deep { full_snapshot(&env.emb, uni) } else { snapshot(&env.emb) };
    if s.tree != env.base_snap || (deep && !s.problems.is_empty()) {
        return Err(mk_fail(op, format!("changed the observable state: {:?} {:?}", diff_trees(&env.base_snap, &s.tree), s.problems.iter().take(3).collect::<Vec<_>>())));
    }
    Ok(not_supported)
}

const RULE: &str = "fixture folder /verif/fixture_embed (203 files, nesting 5, dotted / prefix-sharing / multi-byte / spaced names, empty and binary files, a directory below a same-named directory, a 32-entry and a 145-entry directory, files of every length 0..130 and around 256..8192); a second embedded type (fixture_embed2) constructed first and the Default constructor are compared with their folders; embedded with rust-embed in the release harness; EXHAUSTIVE path set: every file and implied directory, the root, and for each entry the siblings with one character added/removed/changed, 'name.', 'name..', '.name', upper-case variant, paths one and two levels below files, absent children; plus random paths over the fixture's components; on every path every observer (exists,is_file,is_dir,metadata,read,read_to_string,read_dir,walk_dir) is compared with (a) an independent model from a raw std::fs walk and (b) PhysicalFS on the same folder; every mutator and timestamp setter (16 calls per path) must be an Err (NotSupported whenever the call would succeed with an effect on a writable backend; the only accepted Ok are no-op successes such as remove_dir_all on an absent path and create_dir_all on the root) and must leave the full snapshot unchanged; non-trivial = (path, op) with the path being the root, a near-miss of an existing name, or below a file";

pub fn replay(v: &Value) -> CaseResult {
    let env = env().map_err(|m| Failure { message: m, replay: v.clone() })?;
    if v.get("kind").and_then(|k| k.as_str()) == Some("c18-env") {
        // the construction-time comparisons (second embedded type, Default constructor) passed
        return Ok(());
    }
    let op = crate::hist::op_from_json(v.get("op").unwrap_or(&Value::Null)).ok_or_else(|| Failure { message: "unparsable C18 replay".into(), replay: v.clone() })?;
    if op.is_observer() {
        check_observer(&env, &op)
    } else {
        check_mutator(&env, &op, true, &[]).map(|_| ())
    }
}

pub fn run(ctx: &RunCtx) -> i32 {
    let reg = crate::regress::run_for(&ctx.id, &replay);
    if let Some((path, msg)) = &reg.violation {
        println!("--- regression input fails ---\n{}", msg);
        println!("VIOLATION property={} replay={}", ctx.id, path);
        return 1;
    }
    let mut stats = Stats::default();
    let mut failure: Option<Failure> = None;
    let r = guarded(|| -> Result<(), Failure> {
        let env = env().map_err(|m| Failure { message: m, replay: json!({"kind": "c18-env"}) })?;
        // initial view = the folder
        if env.base_snap != env.model {
            return Err(Failure { message: format!("EmbeddedFS view differs from the folder: {:?}", diff_trees(&env.model, &env.base_snap)), replay: json!({"kind": "c18", "op": ["exists", ""]}) });
        }
        let mut paths = path_set(&env.model);
        let n_exh = paths.len();
        paths.extend(random_paths(ctx.tier.pick(4000, 600_000), ctx.seed, &env.model));
        let uni: Vec<String> = paths.iter().take(n_exh).map(|(p, _)| p.clone()).filter(|p| !p.is_empty()).collect();
        let others = ["/a.txt", "/newdest", "/ab/newdest", "/dir", "/ab/c.txt/x", ""];
        for (i, (p, class)) in paths.iter().enumerate() {
            let interesting = matches!(*class, "root" | "near-miss" | "below-file");
            for op in observer_ops(p) {
                stats.evaluations += 1;
                check_observer(&env, &op)?;
                stats.label(&format!("observer:{}", class));
                if interesting {
                    stats.nontrivial.insert(crate::util::fnv_str(&format!("{}|{}", p, op.kind())));
                }
            }
            // mutators: on the exhaustive set all of them, on random paths a rotating subset
            let other = others[i % others.len()];
            for (j, op) in mutator_ops(p, other).into_iter().enumerate() {
                if i >= n_exh && (i + j) % 4 != 0 {
                    continue;
                }
                // only copy/move into the own subtree is excluded (documented non-termination)
                if let Op::CopyDir(s, d) | Op::MoveDir(s, d) = &op {
                    if is_within(d, s) {
                        continue;
                    }
                }
                stats.evaluations += 1;
                let deep = i < n_exh && j % 5 == 0;
                let ns = check_mutator(&env, &op, deep, &uni)?;
                stats.label(&format!("mutator:{}", class));
                if ns {
                    stats.label("mutators_refused_NotSupported_with_precondition_met");
                }
                if interesting {
                    stats.nontrivial.insert(crate::util::fnv_str(&format!("{}|{}|{}", p, op.kind(), j)));
                }
                if stats.sample_nontrivial.len() < 3 && interesting && j == (i % 16) {
                    stats.sample_nontrivial.push(json!({"path": p, "class": class, "op": op.render()}));
                }
            }
            if stats.samples.len() < 2 && *class == "random" {
                stats.samples.push(json!({"path": p, "class": class, "ops": "8 observers + rotating mutators"}));
            }
        }
        stats.label_n("exhaustive_paths", n_exh as u64);
        stats.label_n("random_paths", (paths.len() - n_exh) as u64);
        Ok(())
    });
    match r {
        Err(p) => failure = Some(Failure { message: format!("PANIC outside a guarded call: {}", p), replay: json!({"kind": "c18", "op": ["exists", ""]}) }),
        Ok(Err(f)) => failure = Some(f),
        Ok(Ok(())) => {}
    }
    write_evidence(
        ctx,
        "exploration",
        RULE,
        &stats,
        json!({"exhaustive": true, "exhaustive_bound": "the path set derived from the fixture (entries, root, near-misses, below-file, absent children) x all operations; random paths are sampled", "regress_replayed": reg.replayed}),
        &["rust-embed embeds the folder at build time (release profile, debug-assertions off); the fixture has no empty directories because rust-embed embeds files only", "mutators are never run against the physical fixture; their expected outcome comes from the model"],
        failure.is_some() as u32,
    );
    finish(ctx, &stats, &failure, &[("distinct_nontrivial", 1000), ("mutators_refused_NotSupported_with_precondition_met", 100)])
}

/// C13 part (d): all operations on every path of the exhaustive set; only panics count.
pub fn panic_sweep() -> Result<u64, Failure> {
    let env = env().map_err(|m| Failure { message: m, replay: json!({"kind": "c18-env"}) })?;
    let paths = path_set(&env.model);
    let mut n = 0u64;
    for (i, (p, _)) in paths.iter().enumerate() {
        let others = ["/a.txt", "/newdest", "", "/dir"];
        let mut ops = observer_ops(p);
        ops.extend(mutator_ops(p, others[i % others.len()]));
        for op in ops {
            if let Op::CopyDir(s, d) | Op::MoveDir(s, d) = &op {
                if is_within(d, s) {
                    continue;
                }
            }
            n += 1;
            if let Outcome::Panic(m) = exec(&env.emb, &op) {
                return Err(mk_fail(&op, format!("panicked: {}", m)));
            }
        }
    }
    Ok(n)
}
