//! C12 — errors name the caller's path and classify consistently.

use super::common::*;
use crate::gen::{cfg_strategy, Profile};
use crate::hist::*;

pub fn prop() -> HistProp {
    let mut opts = HistOpts::new(Profile::Typed);
    opts.errors = true;
    HistProp {
        opts,
        cfgs: || cfg_strategy(2),
        max_ops: 40,
        max_prepop: 8,
        cases_quick: 8000,
        cases_thorough: 40_000,
        nontrivial: |s, c| s.errors_seen >= 3 && c.cfg.nesting() >= 1,
        rule: "every Err returned in typed histories on all backend stacks (altroot prefixes carry distinctive names so that a leaked inner path is recognisable): path() is not the placeholder, is the call's path, its destination or an ancestor/descendant of either, contains no inner-layer prefix or marker path (nor does Display); missing-in-existing-directory => FileNotFound, occupied create_dir => FileExists/DirectoryExists; non-trivial = case with >=3 errors that crossed >=1 adapter boundary; distinct by case hash; error triples (op kind, top adapter, class) are counted in labels",
        floors: vec![("distinct_nontrivial", 50), ("errors_checked", 3000)],
        assumptions: vec!["io::Error values returned by file handles carry no vfs path and are not judged", "trailing-slash joins (InvalidPath) are checked by C06, NotSupported classification by C18/C19"],
        exclude: crate::findings::hist_excluder("C12"),
        labeler: |s, _, st| {
            st.label_n("errors_checked", s.errors_seen as u64);
            for t in &s.error_triples {
                st.label(&format!("errtriple:{}", t));
            }
        },
    }
}
