//! C12 — errors name the caller's path and classify consistently.

use super::common::*;
use crate::gen::{cfg_strategy, Profile};
use crate::hist::*;

pub fn prop() -> HistProp {
    let mut opts = HistOpts::new(Profile::Typed);
    opts.errors = true;
    // setters too: a missing entry in an existing directory is a not-found for them as well
    opts.with_time = true;
    HistProp {
        opts,
        cfgs: || cfg_strategy(2),
        max_ops: 40,
        max_prepop: 8,
        cases_quick: 8000,
        cases_thorough: 200_000,
        nontrivial: |s, c| s.errors_seen >= 3 && c.cfg.nesting() >= 1,
        rule: "every Err returned in typed histories on all backend stacks (altroot prefixes carry distinctive names so that a leaked inner path is recognisable): path() is not the placeholder, is the call's path, its destination or an ancestor/descendant of either, contains no inner-layer prefix or marker path (nor does Display); missing-in-existing-directory => FileNotFound, occupied create_dir => FileExists/DirectoryExists; non-trivial = case with >=3 errors that crossed >=1 adapter boundary; distinct by case hash; error triples (op kind, top adapter, class) are counted in labels",
        floors: vec![("distinct_nontrivial", 50), ("errors_checked", 3000)],
        assumptions: vec!["io::Error values returned by file handles carry no vfs path and are not judged", "trailing-slash joins (InvalidPath) are checked by C06, NotSupported classification by C18/C19"],
        exclude: crate::findings::hist_excluder("C12"),
        labeler: |s, _, st| {
            st.label_n("errors_checked", s.errors_seen as u64);
            for t in &s.error_triples {
                st.label(&format!("errtriple:{}", t));
            }
        },
    }
}

// ---------------------------------------------------------------------------------------------
// additional parts: error items yielded by walk_dir, and errors of cross-filesystem transfers
// ---------------------------------------------------------------------------------------------

use crate::config::*;
use crate::engine::*;
use crate::exec::*;
use crate::gen::*;
use crate::model::*;
use crate::util::{guarded, idx};
use proptest::prelude::*;
use serde_json::{json, Value};

#[derive(Clone, Debug)]
pub struct WalkCase {
    pub cfg: Cfg,
    pub pool: Vec<String>,
    pub tree: Vec<RawEntry>,
    pub pulls: u8,
    pub victim: u16,
    pub how: u8,
}

fn walk_strategy() -> impl Strategy<Value = WalkCase> {
    (cfg_strategy(2), pool_strategy(), prepop_strategy(14), 0u8..6, any::<u16>(), any::<u8>())
        .prop_map(|(cfg, pool, tree, pulls, victim, how)| WalkCase { cfg, pool, tree, pulls, victim, how })
}

fn test_walk(case: &WalkCase, st: &mut Stats, counting: bool) -> CaseResult {
    let mut trace = vec![];
    let mut errs = 0usize;
    let mut long_errs = 0usize;
    let r = guarded(|| -> Result<(), String> {
        let mut pool = case.pool.clone();
        if case.cfg.contains_overlay() {
            for n in pool.iter_mut() {
                crate::gen::cut_name(n, 200);
            }
        }
        let nl = case.cfg.overlay_layers().max(1);
        let prepop = make_prepop(&case.tree, &pool, 3, nl);
        let built = build(&case.cfg, &prepop)?;
        let model = union_model(&prepop, nl);
        let dirs: Vec<String> = model.dirs().into_iter().filter(|d| !d.is_empty()).collect();
        if dirs.is_empty() {
            return Ok(());
        }
        let victim = dirs[idx(case.victim, dirs.len())].clone();
        let mut it = built.root.walk_dir().map_err(|e| e.to_string())?;
        for _ in 0..case.pulls {
            match it.next() {
                Some(Ok(p)) => trace.push(format!("yield {}", p.as_str())),
                Some(Err(e)) => return Err(format!("walk_dir('') yielded an error before anything was removed: {}", e)),
                None => break,
            }
        }
        // remove (or replace by a file) a directory while the iterator is live
        let vp = at(&built.root, &victim).map_err(|e| e.to_string())?;
        let removed = vp.remove_dir_all().is_ok();
        if removed && case.how % 3 == 0 {
            let _ = vp.create_file();
        }
        trace.push(format!("remove_dir_all('{}') -> {}{}", victim, removed, if removed && case.how % 3 == 0 { ", re-created as a file" } else { "" }));
        let op = Op::WalkDir(String::new());
        let mut guard = 0;
        while let Some(item) = it.next() {
            guard += 1;
            if guard > 5000 {
                return Err("walk does not terminate".into());
            }
            match item {
                Ok(p) => trace.push(format!("yield {}", p.as_str())),
                Err(e) => {
                    errs += 1;
                    let info = err_info(&e, "item");
                    trace.push(format!("yield Err[{:?} path='{}']", info.class, info.path));
                    crate::hist::check_error(&op, &info)?;
                    if !is_within(&info.path, &victim) && !is_within(&victim, &info.path) {
                        return Err(format!("walk_dir error item names '{}', which is neither the removed directory '{}' nor inside it ({})", info.path, victim, info.display));
                    }
                }
            }
        }
        // components longer than the host's 255-byte limit: whatever a backend answers (the
        // in-memory one accepts them, the OS refuses them), an error names the caller's path
        let parent = if case.how % 2 == 0 { String::new() } else { dirs[idx(case.victim.rotate_left(3), dirs.len())].clone() };
        let parent = if at(&built.root, &parent).ok().and_then(|p| p.is_dir().ok()) == Some(true) { parent } else { String::new() };
        let long = if case.how % 4 < 2 { crate::gen::long_name(256 + case.how as usize) } else { crate::gen::long_mb_name(300 + case.how as usize, case.how as usize % 4) };
        let p1 = format!("{}/{}", parent, long);
        let p2 = format!("{}/x", p1);
        let short = format!("{}/zshortz", parent);
        let data = std::sync::Arc::new(b"x".to_vec());
        let probes = [
            Op::Exists(p1.clone()), Op::IsFile(p1.clone()), Op::IsDir(p1.clone()), Op::Metadata(p1.clone()), Op::Read(p1.clone()), Op::ReadDir(p1.clone()),
            Op::ReadToString(p1.clone()), Op::WalkDir(p1.clone()), Op::RemoveFile(p1.clone()), Op::RemoveDir(p1.clone()), Op::SetTime(p1.clone(), TimeField::Modified, 1_000_000, 0),
            Op::Exists(p2.clone()), Op::IsDir(p2.clone()), Op::Metadata(p2.clone()), Op::CreateDir(p2.clone()), Op::CreateFile(p2.clone(), data.clone()), Op::Append(p2.clone(), data.clone()),
            Op::MoveFile(p1.clone(), short.clone()), Op::CopyDir(p1.clone(), short.clone()), Op::CopyFile(p2.clone(), short.clone()),
            Op::CreateDirAll(p2.clone()), Op::CreateFile(p1.clone(), data.clone()), Op::CreateDir(p1.clone()), Op::RemoveDirAll(p1.clone()),
        ];
        for op in &probes {
            match exec(&built.root, op) {
                Outcome::Panic(m) => return Err(format!("{} (component of {} bytes) panicked: {}", op.kind(), long.len(), m)),
                Outcome::Err(info) => {
                    long_errs += 1;
                    crate::hist::check_error(op, &info).map_err(|m| format!("over-long component of {} bytes below '{}': {}", long.len(), parent, m))?;
                }
                Outcome::Ok(_) => {}
            }
        }
        Ok(())
    });
    let mk = |m: String| Failure {
        message: format!("stack {}: {}\n    {}", case.cfg.render(), m, trace.join("\n    ")),
        replay: json!({"kind": "c12-walk", "cfg": case.cfg.to_json(), "pool": case.pool, "tree": case.tree.iter().map(crate::hist::entry_to_json).collect::<Vec<_>>(), "pulls": case.pulls, "victim": case.victim, "how": case.how}),
    };
    match r {
        Err(p) => Err(mk(format!("PANIC: {}", p))),
        Ok(Err(m)) => Err(mk(m)),
        Ok(Ok(())) => {
            if counting {
                st.label("walk_cases");
                st.label_n("walk_error_items_checked", errs as u64);
                st.label_n("errors_checked", (errs + long_errs) as u64);
                st.label_n("errors_of_calls_on_components_longer_than_255_bytes", long_errs as u64);
                if errs > 0 {
                    st.nontrivial.insert(crate::util::fnv_str(&format!("{:?}", case)));
                    st.label(&format!("errtriple:walk_item|{}|any", case.cfg.top()));
                }
                st.sample(json!({"part": "walk_dir with a directory removed while iterating", "stack": case.cfg.render(), "trace": trace.iter().take(12).collect::<Vec<_>>()}), errs > 0);
            }
            Ok(())
        }
    }
}

#[derive(Clone, Debug)]
pub struct XferCase {
    pub cfg_a: Cfg,
    pub cfg_b: Cfg,
    pub pool: Vec<String>,
    pub tree_a: Vec<RawEntry>,
    pub tree_b: Vec<RawEntry>,
    pub ops: Vec<RawOp>,
}

fn xfer_strategy() -> impl Strategy<Value = XferCase> {
    (cfg_strategy(2), cfg_strategy(2), pool_strategy(), prepop_strategy(8), prepop_strategy(6), proptest::collection::vec(rawop_strategy(), 1..10))
        .prop_map(|(cfg_a, cfg_b, pool, tree_a, tree_b, ops)| XferCase { cfg_a, cfg_b, pool, tree_a, tree_b, ops })
}

fn test_xfer(case: &XferCase, st: &mut Stats, counting: bool) -> CaseResult {
    let mut trace = vec![];
    let mut errs = 0usize;
    let r = guarded(|| -> Result<(), String> {
        let mut pool = case.pool.clone();
        if case.cfg_a.contains_overlay() || case.cfg_b.contains_overlay() {
            for n in pool.iter_mut() {
                crate::gen::cut_name(n, 200);
            }
        }
        let uni = crate::observe::universe(&pool, 3);
        let ctx = Ctx { pool: &pool, depth: 3, uni: &uni };
        let a = build(&case.cfg_a, &vec![])?;
        let b = build(&case.cfg_b, &vec![])?;
        for (_, p, n) in make_prepop(&case.tree_a, &pool, 3, 1) {
            write_entry(&a.root, &p, &n)?;
        }
        for (_, p, n) in make_prepop(&case.tree_b, &pool, 3, 1) {
            write_entry(&b.root, &p, &n)?;
        }
        for raw in &case.ops {
            let ta = crate::observe::snapshot(&a.root).tree;
            let tb = crate::observe::snapshot(&b.root).tree;
            // transfers only: source chosen on A, destination on B
            let kind = 15 + (raw.kind % 4) as usize;
            let op = resolve_kind(kind, raw, &ta, &ctx, Profile::Untyped);
            let op = match op {
                Op::CopyFile(s, _) | Op::MoveFile(s, _) | Op::CopyDir(s, _) | Op::MoveDir(s, _) if s.is_empty() => Op::Exists(s),
                Op::CopyFile(s, _) => Op::CopyFile(s, choose(&tb, &ctx, [Want::AbsentChild, Want::Existing, Want::DeepAbsent, Want::BelowFile][(raw.mode2 % 4) as usize], raw.c, raw.d)),
                Op::MoveFile(s, _) => Op::MoveFile(s, choose(&tb, &ctx, [Want::AbsentChild, Want::Existing, Want::DeepAbsent, Want::BelowFile][(raw.mode2 % 4) as usize], raw.c, raw.d)),
                Op::CopyDir(s, _) => Op::CopyDir(s, choose(&tb, &ctx, [Want::AbsentChild, Want::Existing, Want::DeepAbsent, Want::BelowFile][(raw.mode2 % 4) as usize], raw.c, raw.d)),
                Op::MoveDir(s, _) => Op::MoveDir(s, choose(&tb, &ctx, [Want::AbsentChild, Want::Existing, Want::DeepAbsent, Want::BelowFile][(raw.mode2 % 4) as usize], raw.c, raw.d)),
                other => other,
            };
            if op.dest().map(|d| d.is_empty()).unwrap_or(true) {
                continue;
            }
            let out = exec2(&a.root, &b.root, &op);
            trace.push(format!("[A->B] {} -> {}", op.render(), out.class_str()));
            match &out {
                Outcome::Panic(m) => return Err(format!("{} panicked: {}", op.render(), m)),
                Outcome::Err(e) => {
                    errs += 1;
                    crate::hist::check_error(&op, e)?;
                }
                Outcome::Ok(_) => {}
            }
        }
        Ok(())
    });
    let mk = |m: String| Failure {
        message: format!("A = {} | B = {}: {}\n    {}", case.cfg_a.render(), case.cfg_b.render(), m, trace.join("\n    ")),
        replay: json!({"kind": "c12-xfer", "cfg_a": case.cfg_a.to_json(), "cfg_b": case.cfg_b.to_json(), "pool": case.pool,
            "tree_a": case.tree_a.iter().map(crate::hist::entry_to_json).collect::<Vec<_>>(), "tree_b": case.tree_b.iter().map(crate::hist::entry_to_json).collect::<Vec<_>>(),
            "ops": case.ops.iter().map(crate::hist::rawop_to_json).collect::<Vec<_>>()}),
    };
    match r {
        Err(p) => Err(mk(format!("PANIC: {}", p))),
        Ok(Err(m)) => Err(mk(m)),
        Ok(Ok(())) => {
            if counting {
                st.label("cross_filesystem_transfer_cases");
                st.label_n("errors_checked", errs as u64);
                st.label_n("cross_filesystem_errors_checked", errs as u64);
                if errs >= 2 {
                    st.nontrivial.insert(crate::util::fnv_str(&format!("{:?}", case)));
                }
                st.sample(json!({"part": "cross-filesystem transfers", "A": case.cfg_a.render(), "B": case.cfg_b.render(), "trace": trace.iter().take(8).collect::<Vec<_>>()}), errs >= 2);
            }
            Ok(())
        }
    }
}

pub fn replay(v: &Value) -> CaseResult {
    let strs = |k: &str| -> Vec<String> { v.get(k).and_then(|x| x.as_array()).map(|a| a.iter().filter_map(|s| s.as_str().map(|s| s.to_string())).collect()).unwrap_or_default() };
    let entries = |k: &str| -> Vec<RawEntry> { v.get(k).and_then(|x| x.as_array()).map(|a| a.iter().filter_map(crate::hist::entry_from_json).collect()).unwrap_or_default() };
    let mut st = Stats::default();
    match v.get("kind").and_then(|k| k.as_str()) {
        Some("c12-walk") => test_walk(
            &WalkCase {
                cfg: Cfg::from_json(v.get("cfg").unwrap_or(&Value::Null)).unwrap_or(Cfg::Mem),
                pool: strs("pool"),
                tree: entries("tree"),
                pulls: v.get("pulls").and_then(|x| x.as_u64()).unwrap_or(0) as u8,
                victim: v.get("victim").and_then(|x| x.as_u64()).unwrap_or(0) as u16,
                how: v.get("how").and_then(|x| x.as_u64()).unwrap_or(0) as u8,
            },
            &mut st,
            false,
        ),
        Some("c12-xfer") => test_xfer(
            &XferCase {
                cfg_a: Cfg::from_json(v.get("cfg_a").unwrap_or(&Value::Null)).unwrap_or(Cfg::Mem),
                cfg_b: Cfg::from_json(v.get("cfg_b").unwrap_or(&Value::Null)).unwrap_or(Cfg::Mem),
                pool: strs("pool"),
                tree_a: entries("tree_a"),
                tree_b: entries("tree_b"),
                ops: v.get("ops").and_then(|x| x.as_array()).map(|a| a.iter().filter_map(crate::hist::rawop_from_json).collect()).unwrap_or_default(),
            },
            &mut st,
            false,
        ),
        _ => prop().replay(v),
    }
}

pub fn run(ctx: &RunCtx) -> i32 {
    let hp = prop();
    let reg = crate::regress::run_for(&ctx.id, &|v| if v.get("kind").and_then(|k| k.as_str()) == Some("script") { hp.replay_strict(v) } else { replay(v) });
    if let Some((path, msg)) = &reg.violation {
        println!("--- regression input fails ---\n{}", msg);
        println!("VIOLATION property={} replay={}", ctx.id, path);
        return 1;
    }
    let (mut stats, mut failure) = run_sharded(
        ctx,
        "hist",
        ctx.tier.pick(hp.cases_quick, hp.cases_thorough),
        || crate::hist::hist_strategy((hp.cfgs)(), hp.max_ops, hp.max_prepop),
        |case, st, counting| hp.test(case, st, counting),
    );
    if failure.is_none() {
        let (s, f) = run_sharded(ctx, "walk", ctx.tier.pick(4000, 200_000), walk_strategy, test_walk);
        stats.merge(s);
        failure = f;
    }
    if failure.is_none() {
        let (s, f) = run_sharded(ctx, "xfer", ctx.tier.pick(2500, 100_000), xfer_strategy, test_xfer);
        stats.merge(s);
        failure = f;
    }
    let rule = format!("{}; PLUS (b) walk_dir over generated trees with a directory removed (or replaced by a file) after k items were pulled: every Err item must name the vanished directory or something inside it, never the placeholder or an inner path; PLUS (c) copy/move file/dir between two different filesystem instances with free, occupied, deep-absent and below-file destinations: every Err names the source or destination path", hp.rule);
    write_evidence(ctx, "exploration", &rule, &stats, json!({"regress_replayed": reg.replayed}), &hp.assumptions, failure.is_some() as u32);
    finish(ctx, &stats, &failure, &[("distinct_nontrivial", 50), ("errors_checked", 3000), ("walk_error_items_checked", 20), ("cross_filesystem_errors_checked", 200)])
}
