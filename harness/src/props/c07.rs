//! C07 — AltrootFS (and PhysicalFS) are exact and confined re-rootings.
//!
//! Three independent observations: a twin instance receiving the translated call, a recorder
//! between the altroot and its underlying filesystem, and the OS-level jail around physical roots.

use crate::config::*;
use crate::engine::*;
use crate::exec::*;
use crate::gen::*;
use crate::hist::{data_from_json, data_to_json, entry_from_json, entry_to_json, rawop_from_json, rawop_to_json};
use crate::model::*;
use crate::observe::*;
use crate::props::c06::ref_join;
use crate::util::{guarded, idx};
use crate::wrap::{Call, CallLog, RecFS};
use proptest::prelude::*;
use serde_json::{json, Value};
use std::collections::BTreeSet;
use std::sync::{Arc, Mutex};
use vfs::{AltrootFS, VfsPath};

#[derive(Clone, Debug)]
pub struct Case {
    pub pool: Vec<String>,
    pub under: Cfg,
    /// name indices of P's components (empty = underlying root)
    pub p: Vec<u16>,
    /// second altroot level inside the first (altroot of altroot)
    pub p2: Option<Vec<u16>>,
    /// false: no altroot at all, PhysicalFS/MemoryFS root used directly (confinement of the backend)
    pub use_alt: bool,
    pub prepop: Vec<RawEntry>,
    pub ops: Vec<(RawOp, Hostile, Hostile)>,
    /// PhysicalFS underlying constructed from a RELATIVE root path ("../<dir>/jail/root" seen from
    /// the process's working directory); the twin uses the absolute path of the same directory
    pub rel: bool,
}

/// How the canonical target is re-expressed as a (hostile) join argument.
#[derive(Clone, Debug, PartialEq)]
pub struct Hostile {
    pub style: u8,
    pub n: u8,
    pub tok: Vec<u8>,
}

fn hostile_strategy() -> impl Strategy<Value = Hostile> {
    (any::<u8>(), any::<u8>(), proptest::collection::vec(any::<u8>(), 0..6)).prop_map(|(style, n, tok)| Hostile { style, n, tok })
}

fn under_strategy() -> BoxedStrategy<Cfg> {
    prop_oneof![
        3 => Just(Cfg::Mem),
        3 => Just(Cfg::Phys),
        2 => proptest::collection::vec(prop_oneof![Just(Cfg::Mem), Just(Cfg::Phys)], 1..=3).prop_map(Cfg::Ovl),
        1 => (prop_oneof![Just(Cfg::Mem), Just(Cfg::Phys)], 2usize..=3).prop_map(|(c, n)| Cfg::OvlSub(Box::new(c), n)),
    ]
    .boxed()
}

fn strategy() -> impl Strategy<Value = Case> {
    (
        pool_strategy(),
        under_strategy(),
        proptest::collection::vec(any::<u16>(), 0..=3),
        proptest::option::weighted(0.25, proptest::collection::vec(any::<u16>(), 1..=2)),
        proptest::bool::weighted(0.85),
        prepop_strategy(10),
        proptest::collection::vec((rawop_strategy(), hostile_strategy(), hostile_strategy()), 0..=25),
        any::<bool>(),
    )
        .prop_map(|(pool, under, p, p2, use_alt, prepop, ops, rel)| Case { pool, under, p, p2, use_alt, prepop, ops, rel })
}

const ODD: [&str; 14] = ["..\\", "\\..", "..\\..", "%2e%2e", "..;", "...", ". .", "..\\x", "x\\..", "\\", "..%2f", " ..", ".. ", "~"];

/// Build a join argument. Styles 0..=5 are re-expressions that a correct lexical resolver maps
/// back onto `q`; the others are free-form hostile strings (their target is whatever the
/// reference resolver says).
fn hostile_arg(h: &Hostile, q: &str, pool: &[String], pname: &str) -> String {
    let rel = q.trim_start_matches('/');
    let ups = |n: usize| "../".repeat(n);
    match h.style % 12 {
        0 => rel.to_string(),
        1 => format!("{}{}", ups(1 + h.n as usize % 6), rel),
        2 => format!("/{}{}", ups(h.n as usize % 4), rel),
        3 => format!("{}/../{}", pool[idx((h.n as u16) << 8, pool.len())], rel),
        4 => format!("./{}/.", rel).replace("//", "/"),
        5 => {
            // climb out from a deep detour and come back
            let d = 1 + h.n as usize % 3;
            let detour: Vec<&str> = (0..d).map(|i| pool[(h.n as usize + i) % pool.len()].as_str()).collect();
            format!("{}/{}{}", detour.join("/"), ups(d + 2), rel)
        }
        _ => {
            // free-form: tokens from pool names, dots, slashes, odd strings and P's own name
            let mut s = String::new();
            for t in &h.tok {
                let t = *t as usize;
                match t % 9 {
                    0 => s.push('/'),
                    1 => s.push_str(".."),
                    2 => s.push_str("../"),
                    3 => s.push_str(&pool[t / 9 % pool.len()]),
                    4 => s.push_str(ODD[t / 9 % ODD.len()]),
                    5 => s.push_str(pname),
                    6 => {
                        s.push_str(pname);
                        s.push_str("..");
                    }
                    7 => s.push_str("/../"),
                    _ => s.push('.'),
                }
            }
            if s.len() > 1 && s.ends_with('/') {
                s.push_str(&pool[0]);
            }
            if s.is_empty() {
                rel.to_string()
            } else {
                s
            }
        }
    }
}

fn p_path(pool: &[String], comps: &[u16]) -> String {
    let mut s = String::new();
    for c in comps {
        s.push('/');
        s.push_str(&pool[idx(*c, pool.len())]);
    }
    s
}

fn strip(prefix: &str, v: &Val) -> Val {
    let cut = |s: &String| s.strip_prefix(prefix).unwrap_or(s).to_string();
    match v {
        Val::Walk(w) => Val::Walk(w.iter().map(cut).collect()),
        other => other.clone(),
    }
}

fn subtree(t: &Tree, p: &str) -> Tree {
    let mut out = Tree::new();
    for (k, v) in &t.m {
        if k != p && is_within(k, p) {
            out.m.insert(k[p.len()..].to_string(), v.clone());
        }
    }
    out
}

struct JailWatch {
    root_listing: BTreeSet<String>,
    cwd_listing: BTreeSet<String>,
}

fn list_dir(p: &std::path::Path) -> BTreeSet<String> {
    std::fs::read_dir(p).map(|rd| rd.filter_map(|e| e.ok()).map(|e| e.file_name().to_string_lossy().into_owned()).collect()).unwrap_or_default()
}

impl JailWatch {
    fn new() -> JailWatch {
        JailWatch { root_listing: list_dir(std::path::Path::new("/")), cwd_listing: std::env::current_dir().map(|c| list_dir(&c)).unwrap_or_default() }
    }
    /// returns descriptions of escapes, and removes what escaped (only new entries)
    fn check(&self, scratch: &[Arc<crate::util::Scratch>], pool: &[String]) -> Vec<String> {
        let mut out = vec![];
        let now = list_dir(std::path::Path::new("/"));
        for n in now.difference(&self.root_listing) {
            // other processes may create entries in '/', only names we could have produced count
            out.push(format!("new entry '/{}' appeared in the real filesystem root", n));
            if pool.contains(n) {
                let _ = std::fs::remove_dir_all(format!("/{}", n));
                let _ = std::fs::remove_file(format!("/{}", n));
            }
        }
        if let Ok(cwd) = std::env::current_dir() {
            for n in list_dir(&cwd).difference(&self.cwd_listing) {
                out.push(format!("new entry '{}' appeared in the working directory", n));
                let _ = std::fs::remove_dir_all(cwd.join(n));
                let _ = std::fs::remove_file(cwd.join(n));
            }
        }
        for s in scratch {
            let jail = s.dir.join("jail");
            let l = list_dir(&jail);
            let expect: BTreeSet<String> = ["root".to_string(), "sentinel".to_string()].into_iter().collect();
            if l != expect {
                out.push(format!("the directory around a PhysicalFS root changed: {:?}", l.symmetric_difference(&expect).collect::<Vec<_>>()));
            }
            if std::fs::read(jail.join("sentinel")).ok().as_deref() != Some(b"sentinel".as_ref()) {
                out.push("the sentinel file next to a PhysicalFS root was modified".into());
            }
            let top = list_dir(&s.dir);
            if top.len() != 1 {
                out.push(format!("entries appeared two levels above a PhysicalFS root: {:?}", top));
            }
        }
        out
    }
}

struct Side {
    plain: VfsPath,
    recorded: VfsPath,
    scratch: Vec<Arc<crate::util::Scratch>>,
}

/// underlying filesystem (whole stack wrapped by ONE recorder), pre-populated inside and outside P
fn build_side(case: &Case, prepop: &Prepop, log: CallLog, relative_root: bool) -> Result<Side, String> {
    let mut scratch = vec![];
    let fs: FsArc = if relative_root && case.under == Cfg::Phys {
        // same layout as config::build_fs, but the root is handed to PhysicalFS as a relative path
        let s = Arc::new(crate::util::Scratch::new("relphys"));
        let rootdir = s.dir.join("jail").join("root");
        std::fs::create_dir_all(&rootdir).map_err(|e| e.to_string())?;
        let _ = std::fs::write(s.dir.join("jail").join("sentinel"), b"sentinel");
        let name = s.dir.file_name().unwrap().to_string_lossy().into_owned();
        scratch.push(s);
        // the working directory is <scratch base>/cwd (set once in run())
        Arc::new(vfs::PhysicalFS::new(format!("../{}/jail/root", name)))
    } else {
        build_fs(&case.under, &mut scratch)?
    };
    let mut fs = fs;
    let mut plain = plain_root(&fs);
    for (_, p, n) in prepop {
        write_entry(&plain, p, n)?;
    }
    // every other overlay underlying gets one more (empty, in-memory) upper layer AFTER the content
    // was written: everything pre-populated then lives only in lower layers of the underlying
    if case.under.contains_overlay() && case.prepop.len() % 2 == 0 {
        fs = Arc::new(vfs::OverlayFS::new(&[VfsPath::new(vfs::MemoryFS::new()), plain.clone()]));
        plain = plain_root(&fs);
    }
    let recorded = VfsPath::new(RecFS { inner: fs, layer: 0, log });
    Ok(Side { plain, recorded, scratch })
}

fn test(case: &Case, st: &mut Stats, counting: bool) -> CaseResult {
    let watch = JailWatch::new();
    let mut trace: Vec<String> = vec![];
    let mut early_handles = 0usize;
    let mut aged_copies = 0usize;
    let mut metas = 0usize;
    let mut crossfs = 0usize; // transfers between the altroot and an unrelated filesystem
    let mut held = 0usize; // create sessions held open and inspected through the underlying filesystem
    let mut facts = (0usize, 0usize, 0usize, false); // hostile mutating ops, executed, tolerated ancestor lookups, content next to P
    let pool = {
        // overlay markers are name + "_wo": keep long names within the host's 255-byte limit
        let mut p = case.pool.clone();
        if case.under.contains_overlay() {
            for n in p.iter_mut() {
                crate::gen::cut_name(n, 200);
            }
        }
        p
    };
    let r = guarded(|| -> Result<(), (usize, String)> {
        let e0 = |m: String| (0usize, m);
        let depth = 3usize;
        let prepop = make_prepop(&case.prepop, &pool, depth, 1);
        let p1 = if case.use_alt { p_path(&pool, &case.p) } else { String::new() };
        let p2 = match (&case.p2, case.use_alt) {
            (Some(c), true) => p_path(&pool, c),
            _ => String::new(),
        };
        let p_total = format!("{}{}", p1, p2);
        let pname = p_total.rsplit('/').next().unwrap_or("").to_string();
        // side A: recorded underlying + altroot(s); side B: twin underlying, called directly
        let log: CallLog = Arc::new(Mutex::new(vec![]));
        let a = build_side(case, &prepop, log.clone(), case.rel).map_err(e0)?;
        let b = build_side(case, &prepop, Arc::new(Mutex::new(vec![])), false).map_err(e0)?;
        // P must exist on both sides (a pre-populated file may be in the way: then skip the case)
        for side in [&a, &b] {
            if at(&side.plain, &p_total).map_err(|e| e0(e.to_string()))?.create_dir_all().is_err() {
                return Ok(());
            }
        }
        let alt_root: VfsPath = if case.use_alt {
            let first = VfsPath::new(AltrootFS::new(at(&a.recorded, &p1).map_err(|e| e0(e.to_string()))?));
            if case.p2.is_some() {
                VfsPath::new(AltrootFS::new(at(&first, &p2).map_err(|e| e0(e.to_string()))?))
            } else {
                first
            }
        } else {
            a.recorded.clone()
        };
        // un-recorded view of side A's underlying for snapshots: the recorder logs them, so
        // snapshots are taken while the log is ignored (cleared afterwards)
        let a_under = a.plain.clone();
        let b_under = b.plain.clone();
        // two unrelated filesystems for transfers across the boundary
        let other_a = VfsPath::new(vfs::MemoryFS::new());
        let other_b = VfsPath::new(vfs::MemoryFS::new());
        for o in [&other_a, &other_b] {
            use std::io::Write;
            o.join("seed").map_err(|e| e0(e.to_string()))?.create_file().map_err(|e| e0(e.to_string()))?.write_all(b"seed from another filesystem").map_err(|e| e0(e.to_string()))?;
        }
        let uni = universe(&pool, depth);
        let ctx = Ctx { pool: &pool, depth, uni: &uni };
        let snap_a0 = snapshot(&a_under);
        let snap_b0 = snapshot(&b_under);
        if snap_a0.tree != snap_b0.tree {
            return Err(e0(format!("twin setup differs: {:?}", diff_trees(&snap_a0.tree, &snap_b0.tree))));
        }
        facts.3 = snap_a0.tree.m.keys().any(|k| !k.is_empty() && !is_within(k, &p_total) && !is_within(&p_total, k));
        let mut view = subtree(&snap_a0.tree, &p_total);
        log.lock().unwrap().clear();
        let mut ended_early = false;
        for (i, (raw, h1, h2)) in case.ops.iter().enumerate() {
            let step = i + 1;
            let op = resolve(raw, &view, &ctx, Profile::Typed, false);
            if crate::hist::removes_root(&op) {
                continue;
            }
            // re-express target (and destination) as hostile join arguments
            let arg = hostile_arg(h1, op.target(), &pool, &pname);
            let q = ref_join("", &arg);
            let darg = op.dest().map(|d| hostile_arg(h2, d, &pool, &pname));
            let dq = darg.as_ref().map(|d| ref_join("", d));
            if q.is_empty() && !op.is_observer() {
                continue; // no root mutation
            }
            if let Some(d) = &dq {
                if d.is_empty() || is_within(d, &q) && matches!(op, Op::CopyDir(..) | Op::MoveDir(..)) {
                    continue;
                }
                if view.is_dir(&q) && matches!(op, Op::CopyFile(..) | Op::MoveFile(..)) || view.is_file(&q) && matches!(op, Op::CopyDir(..) | Op::MoveDir(..)) {
                    continue; // wrong-typed transfer sources are outside the domain
                }
            }
            let vp = match alt_root.join(&arg) {
                Ok(p) => p,
                Err(_) => continue, // trailing slash: rejected by join, nothing reaches the backend
            };
            let dvp = match &darg {
                Some(d) => match alt_root.join(d) {
                    Ok(p) => Some(p),
                    Err(_) => continue,
                },
                None => None,
            };
            // rewrite the op to the canonical targets for rendering / twin execution
            let op_q = retarget(&op, &q, dq.as_deref());
            let twin_op = retarget(&op, &format!("{}{}", p_total, q), dq.as_ref().map(|d| format!("{}{}", p_total, d)).as_deref());
            let hostile = arg.contains("..") || arg.starts_with('/') || arg.contains('\\');
            if hostile && !op.is_observer() {
                facts.0 += 1;
            }
            facts.1 += 1;
            // now and then a transfer crosses the filesystem boundary: out of the altroot into an
            // unrelated MemoryFS, or from there into the altroot (the twin does the same on P/q)
            if raw.mode2 % 7 == 5 && matches!(op_q, Op::CopyFile(..) | Op::CopyDir(..) | Op::MoveFile(..)) {
                let name = format!("/x{}", step);
                let import = raw.mode % 3 == 0 && matches!(op_q, Op::CopyFile(..));
                let tp = at(&b_under, &format!("{}{}", p_total, q)).map_err(|e| (step, e.to_string()))?;
                let (ra, rb, what) = if import {
                    let (sa_, sb_) = (at(&other_a, "/seed").map_err(|e| (step, e.to_string()))?, at(&other_b, "/seed").map_err(|e| (step, e.to_string()))?);
                    (sa_.copy_file(&vp).map(|_| 0u64), sb_.copy_file(&tp).map(|_| 0u64), format!("copy_file(other:'/seed' -> '{}')", q))
                } else {
                    let (da, db) = (at(&other_a, &name).map_err(|e| (step, e.to_string()))?, at(&other_b, &name).map_err(|e| (step, e.to_string()))?);
                    match op_q {
                        Op::CopyFile(..) => (vp.copy_file(&da).map(|_| 0u64), tp.copy_file(&db).map(|_| 0u64), format!("copy_file('{}' -> other:'{}')", q, name)),
                        Op::MoveFile(..) => (vp.move_file(&da).map(|_| 0u64), tp.move_file(&db).map(|_| 0u64), format!("move_file('{}' -> other:'{}')", q, name)),
                        _ => (vp.copy_dir(&da), tp.copy_dir(&db), format!("copy_dir('{}' -> other:'{}')", q, name)),
                    }
                };
                trace.push(format!("{} -> altroot {} / twin {}", what, if ra.is_ok() { "ok" } else { "err" }, if rb.is_ok() { "ok" } else { "err" }));
                if ra.is_ok() != rb.is_ok() || (ra.is_ok() && ra.as_ref().ok() != rb.as_ref().ok()) {
                    return Err((step, format!("{}: through the altroot {:?}, on P/q directly {:?}", what, ra.map_err(|e| e.to_string()), rb.map_err(|e| e.to_string()))));
                }
                let (oa, ob) = (snapshot(&other_a), snapshot(&other_b));
                if oa.tree != ob.tree {
                    return Err((step, format!("{}: the other filesystem differs from the twin's: {:?}", what, diff_trees(&ob.tree, &oa.tree))));
                }
                let sa = snapshot(&a_under);
                let sb = snapshot(&b_under);
                if sa.tree != sb.tree {
                    return Err((step, format!("after {}: the underlying filesystem differs from the twin that received the call on P/q directly: {:?}", what, diff_trees(&sb.tree, &sa.tree))));
                }
                view = subtree(&sa.tree, &p_total);
                log.lock().unwrap().clear();
                crossfs += 1;
                if ra.is_err() {
                    // a composite that failed on both sides: partial effects are unspecified
                    break;
                }
                continue;
            }
            // now and then a create session is held open: what the underlying filesystem shows
            // while the altroot's handle is open must be what it shows for a handle opened on P/q
            if let (Op::CreateFile(_, bytes), true) = (&op_q, raw.mode2 % 5 == 3) {
                use std::io::Write;
                let tp = at(&b_under, &format!("{}{}", p_total, q)).map_err(|e| (step, e.to_string()))?;
                let ha = vp.create_file();
                let hb = tp.create_file();
                if let (Ok(ha), Ok(hb)) = (ha, hb) {
                    let (mut ha, mut hb) = (crate::util::hold(ha), crate::util::hold(hb));
                    let _ = ha.write_all(bytes);
                    let _ = hb.write_all(bytes);
                    let look = |root: &VfsPath| -> (Option<u64>, Option<Vec<u8>>) {
                        let p = at(root, &format!("{}{}", p_total, q)).ok();
                        let len = p.as_ref().and_then(|p| p.metadata().ok()).map(|m| m.len);
                        let data = p.and_then(|p| p.open_file().ok()).map(|mut f| {
                            let mut v = vec![];
                            let _ = std::io::Read::read_to_end(&mut f, &mut v);
                            v
                        });
                        (len, data)
                    };
                    let (va, vb) = (look(&a_under), look(&b_under));
                    if va != vb {
                        return Err((step, format!("create_file('{}') handle held open after writing {} bytes: the underlying filesystem shows len {:?} behind the altroot but {:?} for a handle opened on P/q directly", q, bytes.len(), va.0, vb.0)));
                    }
                    let _ = ha.flush();
                    let _ = hb.flush();
                    let (va, vb) = (look(&a_under), look(&b_under));
                    if va != vb {
                        return Err((step, format!("create_file('{}') handle flushed but still open: underlying shows len {:?} behind the altroot but {:?} for P/q directly", q, va.0, vb.0)));
                    }
                    drop(ha);
                    drop(hb);
                    trace.push(format!("create_file('{}') held open, observed through the underlying filesystem, flushed, dropped", q));
                    let sa = snapshot(&a_under);
                    let sb = snapshot(&b_under);
                    if sa.tree != sb.tree {
                        return Err((step, format!("after the held-open create session on '{}': underlying differs from the twin: {:?}", q, diff_trees(&sb.tree, &sa.tree))));
                    }
                    view = subtree(&sa.tree, &p_total);
                    log.lock().unwrap().clear();
                    held += 1;
                    continue;
                }
            }
            // a copy is a new file: before a file copy the source is aged on both sides (directly in
            // the underlying filesystems), afterwards both destinations must be equally "recent"
            let aged = matches!(op_q, Op::CopyFile(..)) && view.is_file(&q);
            if aged {
                let old = crate::exec::time_of(978_307_200, 0);
                for under in [&a_under, &b_under] {
                    if let Ok(p) = at(under, &format!("{}{}", p_total, q)) {
                        let _ = p.set_modification_time(old);
                    }
                }
            }
            // a read handle opened before the call and used after it (twin: the same on P/q)
            let early = if op_q.target() == q && view.is_file(&q) && raw.mode2 % 4 == 2 && !op_q.is_observer() {
                let ha = vp.open_file().ok();
                let hb = at(&b_under, &format!("{}{}", p_total, q)).ok().and_then(|p| p.open_file().ok());
                match (ha, hb) {
                    (Some(a), Some(b)) => Some((a, b)),
                    _ => None,
                }
            } else {
                None
            };
            log.lock().unwrap().clear();
            let out_a = exec_on(&vp, dvp.as_ref(), &op_q);
            let calls: Vec<Call> = std::mem::take(&mut *log.lock().unwrap());
            let out_b = exec(&b_under, &twin_op);
            if let Some((mut ha, mut hb)) = early {
                use std::io::Read;
                let (mut va, mut vb) = (vec![], vec![]);
                let (ra, rb) = (ha.read_to_end(&mut va).is_ok(), hb.read_to_end(&mut vb).is_ok());
                if ra != rb || (ra && va != vb) {
                    return Err((step, format!("a read handle on '{}' opened before {} and read afterwards delivers {} through the altroot but {} for a handle opened on P/q directly", q, op_q.render(), if ra { format!("{} bytes", va.len()) } else { "an error".into() }, if rb { format!("{} bytes", vb.len()) } else { "an error".into() })));
                }
                early_handles += 1;
            }
            if aged && out_a.is_ok() && out_b.is_ok() {
                if let Some(d) = &dq {
                    let recent = |under: &VfsPath| -> Option<bool> {
                        let m = at(under, &format!("{}{}", p_total, d)).ok()?.metadata().ok()?;
                        m.modified.map(|t| t > crate::exec::time_of(1_500_000_000, 0))
                    };
                    let (ma, mb) = (recent(&a_under), recent(&b_under));
                    if ma != mb {
                        return Err((step, format!("{} of a source last modified in 2001: the copy's modification time is {} behind the altroot but {} for the same call on P/q", op_q.render(), if ma == Some(true) { "recent" } else { "the source's old one" }, if mb == Some(true) { "recent" } else { "the source's old one" })));
                    }
                    aged_copies += 1;
                }
            }
            trace.push(format!("{} via join({:?}{}) -> {} | twin {} -> {}", op_q.render(), arg, darg.as_ref().map(|d| format!(", {:?}", d)).unwrap_or_default(), out_a.class_str(), twin_op.render(), out_b.class_str()));
            // (2) recorder: nothing outside P is touched
            if case.use_alt {
                for c in &calls {
                    let inside = is_within(&c.path, &p_total) && c.path2.as_ref().map(|p| is_within(p, &p_total)).unwrap_or(true);
                    if inside {
                        continue;
                    }
                    let lookup = matches!(c.method, "exists" | "metadata") && is_within(&p_total, &c.path);
                    if lookup {
                        facts.2 += 1;
                        continue;
                    }
                    return Err((step, format!("{}: the altroot at '{}' issued {}('{}'{}) to the underlying filesystem, outside P", op_q.render(), p_total, c.method, c.path, c.path2.as_ref().map(|p| format!(", '{}'", p)).unwrap_or_default())));
                }
            }
            // (1) twin: same outcome ...
            match (&out_a, &out_b) {
                (Outcome::Panic(m), _) | (_, Outcome::Panic(m)) => return Err((step, format!("{} panicked: {}", op_q.render(), m))),
                (Outcome::Ok(x), Outcome::Ok(y)) => {
                    let y2 = strip(&p_total, y);
                    let same = match (x, &y2) {
                        (Val::Walk(p), Val::Walk(q)) => {
                            let (mut p, mut q) = (p.clone(), q.clone());
                            p.sort();
                            q.sort();
                            p == q
                        }
                        _ => *x == y2,
                    };
                    if !same {
                        return Err((step, format!("{} returned {} but the same call on P/q of the underlying filesystem returns {}", op_q.render(), render_val(x), render_val(&y2))));
                    }
                }
                (Outcome::Err(x), Outcome::Err(y)) => {
                    // classes the properties name: already-exists always; not-found for a target
                    // missing from an existing directory (other kinds depend on the route taken,
                    // e.g. rename vs copy fallback, and are not part of "the same outcome")
                    let exists_class = |c: ErrClass| matches!(c, ErrClass::FileExists | ErrClass::DirExists);
                    let missing_in_dir = op_q.dest().is_none() && !view.exists(&q) && view.is_dir(&parent_of(&q)) && !q.is_empty();
                    let nf_differs = missing_in_dir && ((x.class == ErrClass::NotFound) != (y.class == ErrClass::NotFound));
                    if ((exists_class(x.class) || exists_class(y.class)) && x.class != y.class) || nf_differs {
                        return Err((step, format!("{} fails with {:?} but the same call on P/q fails with {:?}", op_q.render(), x.class, y.class)));
                    }
                }
                _ => return Err((step, format!("{} gives {} but the same call on P/q of the underlying filesystem gives {}", op_q.render(), out_a.render(), out_b.render()))),
            }
            if op_q.is_composite() && !out_a.is_ok() && !out_b.is_ok() {
                // a composite that fails on both sides may leave listing-order-dependent partial
                // effects (unspecified by the properties): the twins can no longer be compared
                ended_early = true;
                break;
            }
            // ... and the same effect on the WHOLE underlying tree, outside P included
            let sa = snapshot(&a_under);
            let sb = snapshot(&b_under);
            if sa.tree != sb.tree {
                return Err((step, format!("after {}: the underlying filesystem differs from the twin that received the call on P/q directly: {:?}", op_q.render(), diff_trees(&sb.tree, &sa.tree))));
            }
            // the altroot view shows exactly the subtree below P
            let sv = full_snapshot(&alt_root, &uni);
            let expect_view = subtree(&sa.tree, &p_total);
            if sv.tree != expect_view || !sv.problems.is_empty() {
                return Err((step, format!("after {}: the altroot view is not the subtree below P='{}': {:?} {:?}", op_q.render(), p_total, diff_trees(&expect_view, &sv.tree), sv.problems.iter().take(3).collect::<Vec<_>>())));
            }
            // ... and every entry of the view, the view's own root included, is the entry P/q itself:
            // type, length and all three timestamps as the underlying filesystem reports them
            for q in sv.tree.m.keys() {
                let ma = at(&alt_root, q).ok().and_then(|p| p.metadata().ok());
                let mu = at(&a_under, &format!("{}{}", p_total, q)).ok().and_then(|p| p.metadata().ok());
                let five = |m: &vfs::VfsMetadata| (m.file_type == vfs::VfsFileType::Directory, m.len, m.created, m.modified, m.accessed);
                if ma.as_ref().map(five) != mu.as_ref().map(five) {
                    return Err((step, format!("after {}: metadata('{}') through the altroot is {:?} but metadata('{}{}') of the underlying filesystem is {:?}", op_q.render(), q, ma.as_ref().map(five), p_total, q, mu.as_ref().map(five))));
                }
                metas += 1;
            }
            view = sv.tree;
            log.lock().unwrap().clear();
        }
        let _ = ended_early;
        // (3) jail
        let mut esc = watch.check(&a.scratch, &pool);
        esc.extend(watch.check(&b.scratch, &pool));
        if !esc.is_empty() {
            return Err((case.ops.len(), format!("confinement broken at OS level: {:?}", esc)));
        }
        Ok(())
    });
    let mk = |step: usize, msg: String| Failure {
        message: format!("underlying {} | P components {:?}{} | step {}: {}\n  trace:\n    {}", case.under.render(), p_path(&pool, &case.p), case.p2.as_ref().map(|c| format!(" + nested altroot {:?}", p_path(&pool, c))).unwrap_or_default(), step, msg, trace.join("\n    ")),
        replay: json!({"kind": "c07", "case": case_to_json(case), "failing_step": step}),
    };
    match r {
        Err(p) => Err(mk(0, format!("PANIC: {}", p))),
        Ok(Err((step, m))) => Err(mk(step, m)),
        Ok(Ok(())) => {
            if counting {
                let nt = facts.0 >= 1 && facts.3;
                st.label(&format!("under:{}", case.under.top()));
                st.label(&format!("p_depth:{}", if case.use_alt { case.p.len() } else { 99 }));
                if case.p2.is_some() && case.use_alt {
                    st.label("altroot_of_altroot");
                }
                if !case.use_alt {
                    st.label("direct_backend_root");
                }
                if case.rel && case.under == Cfg::Phys {
                    st.label("physical_root_given_as_relative_path");
                }
                st.label_n("ops_executed", facts.1 as u64);
                st.label_n("create_sessions_held_open", held as u64);
                st.label_n("cross_filesystem_transfers", crossfs as u64);
                st.label_n("read_handles_opened_before_a_mutation", early_handles as u64);
                st.label_n("copies_of_aged_sources", aged_copies as u64);
                st.label_n("entries_whose_full_metadata_equals_the_underlying_entry", metas as u64);
                st.label_n("hostile_mutating_ops", facts.0 as u64);
                st.label_n("tolerated_ancestor_lookups", facts.2 as u64);
                if nt {
                    st.nontrivial.insert(crate::util::fnv(serde_json::to_string(&case_to_json(case)).unwrap().as_bytes()));
                }
                st.sample(json!({"underlying": case.under.render(), "P": format!("{}{}", p_path(&pool, &case.p), case.p2.as_ref().map(|c| p_path(&pool, c)).unwrap_or_default()), "history": trace.iter().take(10).collect::<Vec<_>>()}), nt);
            }
            Ok(())
        }
    }
}

fn retarget(op: &Op, q: &str, d: Option<&str>) -> Op {
    let q = q.to_string();
    let d = d.unwrap_or("").to_string();
    match op {
        Op::CreateDir(_) => Op::CreateDir(q),
        Op::CreateFile(_, b) => Op::CreateFile(q, b.clone()),
        Op::Append(_, b) => Op::Append(q, b.clone()),
        Op::RemoveFile(_) => Op::RemoveFile(q),
        Op::RemoveDir(_) => Op::RemoveDir(q),
        Op::Read(_) => Op::Read(q),
        Op::ReadDir(_) => Op::ReadDir(q),
        Op::Metadata(_) => Op::Metadata(q),
        Op::Exists(_) => Op::Exists(q),
        Op::IsFile(_) => Op::IsFile(q),
        Op::IsDir(_) => Op::IsDir(q),
        Op::CreateDirAll(_) => Op::CreateDirAll(q),
        Op::RemoveDirAll(_) => Op::RemoveDirAll(q),
        Op::ReadToString(_) => Op::ReadToString(q),
        Op::WalkDir(_) => Op::WalkDir(q),
        Op::CopyFile(..) => Op::CopyFile(q, d),
        Op::MoveFile(..) => Op::MoveFile(q, d),
        Op::CopyDir(..) => Op::CopyDir(q, d),
        Op::MoveDir(..) => Op::MoveDir(q, d),
        Op::SetTime(_, f, s, n) => Op::SetTime(q, *f, *s, *n),
    }
}

fn hostile_json(h: &Hostile) -> Value {
    json!([h.style, h.n, h.tok])
}
fn hostile_from(v: &Value) -> Option<Hostile> {
    let a = v.as_array()?;
    Some(Hostile { style: a.first()?.as_u64()? as u8, n: a.get(1)?.as_u64()? as u8, tok: a.get(2)?.as_array()?.iter().filter_map(|x| x.as_u64().map(|y| y as u8)).collect() })
}

fn case_to_json(c: &Case) -> Value {
    json!({
        "pool": c.pool, "under": c.under.to_json(), "p": c.p, "p2": c.p2, "use_alt": c.use_alt, "rel": c.rel,
        "prepop": c.prepop.iter().map(entry_to_json).collect::<Vec<_>>(),
        "ops": c.ops.iter().map(|(r, a, b)| json!([rawop_to_json(r), hostile_json(a), hostile_json(b)])).collect::<Vec<_>>(),
    })
}

fn case_from_json(v: &Value) -> Option<Case> {
    let u16s = |x: &Value| -> Vec<u16> { x.as_array().map(|a| a.iter().filter_map(|y| y.as_u64().map(|z| z as u16)).collect()).unwrap_or_default() };
    Some(Case {
        pool: v.get("pool")?.as_array()?.iter().filter_map(|x| x.as_str().map(|s| s.to_string())).collect(),
        under: Cfg::from_json(v.get("under")?)?,
        p: u16s(v.get("p")?),
        p2: v.get("p2").and_then(|x| if x.is_null() { None } else { Some(u16s(x)) }),
        use_alt: v.get("use_alt")?.as_bool()?,
        rel: v.get("rel").and_then(|x| x.as_bool()).unwrap_or(false),
        prepop: v.get("prepop")?.as_array()?.iter().filter_map(entry_from_json).collect(),
        ops: v.get("ops")?.as_array()?.iter().filter_map(|o| {
            let a = o.as_array()?;
            Some((rawop_from_json(a.first()?)?, hostile_from(a.get(1)?)?, hostile_from(a.get(2)?)?))
        }).collect(),
    })
}

/// confine relative paths too: the process runs from an empty scratch directory
fn ensure_cwd() {
    static ONCE: std::sync::Once = std::sync::Once::new();
    ONCE.call_once(|| {
        let cwd = crate::util::scratch_base().join("cwd");
        let _ = std::fs::create_dir_all(&cwd);
        let _ = std::env::set_current_dir(&cwd);
    });
}

pub fn replay(v: &Value) -> CaseResult {
    ensure_cwd();
    let _ = (data_from_json, data_to_json);
    let case = case_from_json(v.get("case").unwrap_or(&Value::Null)).ok_or_else(|| Failure { message: "unparsable C07 replay".into(), replay: v.clone() })?;
    let mut st = Stats::default();
    test(&case, &mut st, false)
}

const RULE: &str = "underlying U in {Mem, Phys, Overlay[..], Overlay on sub-paths} pre-populated inside and outside P (every other overlay underlying gets a further empty upper layer after the content was written, so that the content lives in lower layers only); P = 0..3 components drawn from the case's own name pool (so that children named like P occur), optionally an altroot of an altroot, or no altroot at all (backend root used directly); a plain PhysicalFS underlying is built from a RELATIVE root path ('../<dir>/jail/root') in half of the cases while its twin uses the absolute path; create sessions are now and then held open and the underlying filesystem inspected meanwhile; read handles opened before a mutating call on their file and read afterwards must deliver what a handle on P/q delivers; copies of a source whose modification time was set to 2001 must be as recent as the twin's copy; copy_file / move_file / copy_dir out of the altroot into an unrelated MemoryFS and copy_file from there into the altroot, the twin doing the same on P/q (same outcome, same other filesystem, same underlying tree); typed C01 ops whose path arguments are join()ed from hostile strings ('../'-climbs, absolute restarts, detours, backslashes, '%2e', names glued to '..', P's own name); oracles: (1) twin instance U' receives the call on P/q (q by the independent reference resolver): same outcome class/value and identical WHOLE underlying snapshots after every step, and the altroot view equals the subtree below P; and metadata(q) of every entry of the view, its root included, equal to metadata(P/q) of the underlying filesystem in type, length and all three timestamps; (2) a recorder between altroot and U: every trait call's path lies in P (exists/metadata on proper ancestors of P tolerated and counted); (3) OS jail around every PhysicalFS root (sentinel sibling, parent, cwd, '/') unchanged; non-trivial = >=1 mutating op issued through a hostile argument while content exists next to P";

pub fn run(ctx: &RunCtx) -> i32 {
    ensure_cwd();
    let reg = crate::regress::run_for(&ctx.id, &replay);
    if let Some((path, msg)) = &reg.violation {
        println!("--- regression input fails ---\n{}", msg);
        println!("VIOLATION property={} replay={}", ctx.id, path);
        return 1;
    }
    let (stats, failure) = run_sharded(ctx, "altroot", ctx.tier.pick(4000, 150_000), strategy, test);
    write_evidence(ctx, "exploration", RULE, &stats, json!({"regress_replayed": reg.replayed}), &["symlinks are excluded by the property", "direct FileSystem-trait calls with non-canonical strings are outside the documented precondition and not generated", "the '/' and cwd listings are compared per case; shards run concurrently, so an escape is attributed to the case that observes it"], failure.is_some() as u32);
    finish(ctx, &stats, &failure, &[("distinct_nontrivial", 100), ("under:phys", 20), ("under:overlay", 20), ("altroot_of_altroot", 20), ("direct_backend_root", 20)])
}
