//! C08 — OverlayFS never modifies lower layers; observers modify nothing.

use super::common::*;
use crate::config::*;
use crate::engine::*;
use crate::gen::*;
use crate::hist::*;
use crate::model::*;
use proptest::prelude::*;
use serde_json::{json, Value};

pub fn prop() -> HistProp {
    let mut opts = HistOpts::new(Profile::Typed);
    opts.lowers = true;
    opts.with_time = true;
    HistProp {
        opts,
        cfgs: || crate::gen::with_emb(overlay_cfg_strategy(2, 2)),
        max_ops: 30,
        max_prepop: 14,
        cases_quick: 6000,
        cases_thorough: 150_000,
        nontrivial: |s, c| s.lower_only_mutations >= 1 && (c.cfg.overlay_layers() >= 3 || c.cfg.nesting() >= 2),
        rule: "overlays of 2..4 pre-populated layers (Mem/Phys/altroot/nested overlay as layer), typed histories incl. timestamp setters; every top-level layer is wrapped in a recorder: after each op no mutating trait call (create_*, append_file, remove_*, set_*_time, copy/move) and no handle write reached a layer with index>=1, pure observers (and the snapshot that follows every step) issued no mutating call to any layer, and a deep snapshot (types, bytes, created+modified times) of every lower layer taken through its own root is unchanged; non-trivial = >=1 mutating op on an entry that exists only in a lower layer, in a stack with >=3 layers or a nested adapter; PLUS a directed battery: a lower-only file of a boundary / large size (up to 512 KiB) and 3..7 calls from {append, overwrite, copy, move, remove, re-create, setters, read} on it and on its copies, same recorder and deep-snapshot oracle; AND write sessions that outlive a removal (remove_file / remove_dir_all / move_file) and an optional re-creation of their path, followed by every pure observer on the path, its directory and the root: no observer may issue a mutating call, nothing may reach a lower layer",
        floors: vec![("distinct_nontrivial", 50)],
        assumptions: vec![
            "access time of lower-layer entries is excluded from the deep snapshot (reading updates it in MemoryFS and in the OS)",
            "wrappers see trait-level calls; a layer mutating itself inside an observer method is only caught by the deep snapshot",
        ],
        exclude: crate::findings::hist_excluder("C08"),
        labeler: |s, _, st| {
            st.label_n("lower_only_mutations", s.lower_only_mutations as u64);
        },
    }
}

// ---------------------------------------------------------------------------------------------
// directed battery: copy-up and transfers of a (large) lower-only file
// ---------------------------------------------------------------------------------------------

#[derive(Clone, Debug)]
pub struct CopyUpCase {
    pub cfg: Cfg,
    pub data: DataSpec,
    pub layer: u8,
    pub also_deeper: bool,
    pub calls: Vec<(u8, DataSpec)>,
}

fn copyup_strategy() -> impl Strategy<Value = CopyUpCase> {
    (overlay_cfg_strategy(2, 2), data_strategy(), any::<u8>(), any::<u8>(), any::<bool>(), proptest::collection::vec((0u8..14, data_strategy()), 3..=7)).prop_map(|(cfg, mut data, big, layer, also_deeper, calls)| {
        // half of the files are of a block-boundary or large size
        if big % 2 == 0 {
            data.kind = 19 + big / 2 % 9;
        }
        CopyUpCase { cfg, data, layer, also_deeper, calls }
    })
}

fn copyup_ops(case: &CopyUpCase) -> Vec<Op> {
    let f = "/d/f".to_string();
    let h = "/d/h".to_string();
    let k = "/e/k".to_string();
    case.calls
        .iter()
        .map(|(c, d)| {
            let mut small = d.clone();
            small.kind = 7 + small.kind % 12;
            let bytes = make_bytes(&small);
            match c {
                0 | 1 => Op::Append(f.clone(), bytes),
                2 => Op::CreateFile(f.clone(), bytes),
                3 => Op::CopyFile(f.clone(), h.clone()),
                4 => Op::Append(h.clone(), bytes),
                5 => Op::MoveFile(f.clone(), k.clone()),
                6 => Op::MoveFile(h.clone(), f.clone()),
                7 => Op::RemoveFile(f.clone()),
                8 => Op::Read(f.clone()),
                9 => Op::CopyDir("/d".to_string(), "/e/dd".to_string()),
                10 => Op::MoveDir("/d".to_string(), "/e/md".to_string()),
                11 => Op::SetTime(f.clone(), TimeField::Modified, 1_000_000_000, 0),
                12 => Op::Append(k.clone(), bytes),
                _ => Op::RemoveDirAll("/d".to_string()),
            }
        })
        .collect()
}

fn copyup_json(case: &CopyUpCase) -> Value {
    json!({"kind": "c08-copyup", "cfg": case.cfg.to_json(), "data": data_to_json(&case.data), "layer": case.layer, "also_deeper": case.also_deeper, "calls": case.calls.iter().map(|(c, d)| json!([c, data_to_json(d)])).collect::<Vec<_>>()})
}

fn copyup_from_json(v: &Value) -> Option<CopyUpCase> {
    Some(CopyUpCase {
        cfg: Cfg::from_json(v.get("cfg")?)?,
        data: data_from_json(v.get("data")?)?,
        layer: v.get("layer")?.as_u64()? as u8,
        also_deeper: v.get("also_deeper")?.as_bool()?,
        calls: v.get("calls")?.as_array()?.iter().filter_map(|x| Some((x.get(0)?.as_u64()? as u8, data_from_json(x.get(1)?)?))).collect(),
    })
}

fn test_copyup(case: &CopyUpCase, st: &mut Stats, counting: bool) -> CaseResult {
    let hp = prop();
    let n = case.cfg.overlay_layers().max(2);
    let li = 1 + (case.layer as usize) % (n - 1);
    let bytes = make_bytes(&case.data);
    let mut prepop: Prepop = vec![(li, "/d/f".to_string(), Node::File(bytes.clone())), (li, "/d/g".to_string(), Node::File(std::sync::Arc::new(b"g".to_vec()))), (0, "/e".to_string(), Node::Dir)];
    if case.also_deeper && li + 1 < n {
        let mut other = bytes.to_vec();
        other.reverse();
        other.push(7);
        prepop.push((li + 1, "/d/f".to_string(), Node::File(std::sync::Arc::new(other))));
    }
    let ops = copyup_ops(case);
    let plan = Plan {
        cfg: &case.cfg,
        pool: ["d", "e", "f", "g", "h", "k", "dd", "md"].iter().map(|s| s.to_string()).collect(),
        depth: 2,
        prepop,
        source: OpSource::Fixed(&ops),
        replay: copyup_json(case),
    };
    let r = run_plan(&plan, &hp.opts, &*hp.exclude, st)?;
    if counting {
        st.label("copy_up_battery_cases");
        st.label_n("copy_up_battery_ops", r.summary.executed as u64);
        if bytes.len() >= 65536 {
            st.label("copy_up_battery_file>=64KiB");
            st.nontrivial.insert(crate::util::fnv_str(&format!("{:?}", case)));
        }
        if case.cfg.contains_phys() {
            st.label("copy_up_battery_with_physical_layer");
        }
    }
    Ok(())
}

// ---------------------------------------------------------------------------------------------
// observers after a write session that outlived a removal of its file
// ---------------------------------------------------------------------------------------------

#[derive(Clone, Debug)]
pub struct SessCase {
    pub cfg: Cfg,
    pub data: DataSpec,
    pub layer: u8,
    pub append: bool,
    pub removal: u8,
    pub recreate: u8,
}

fn sess_strategy() -> impl Strategy<Value = SessCase> {
    (overlay_cfg_strategy(2, 2), data_strategy(), any::<u8>(), any::<bool>(), 0u8..3, 0u8..3).prop_map(|(cfg, data, layer, append, removal, recreate)| SessCase { cfg, data, layer, append, removal, recreate })
}

fn sess_json(c: &SessCase) -> Value {
    json!({"kind": "c08-session", "cfg": c.cfg.to_json(), "data": data_to_json(&c.data), "layer": c.layer, "append": c.append, "removal": c.removal, "recreate": c.recreate})
}

fn test_sess(case: &SessCase, st: &mut Stats, counting: bool) -> CaseResult {
    use crate::exec::{at, exec};
    use crate::wrap::{Call, CallLog, RecFS};
    use std::io::Write;
    use std::sync::{Arc, Mutex};
    let mut trace: Vec<String> = vec![];
    let r = crate::util::guarded(|| -> Result<(), String> {
        let n = case.cfg.overlay_layers().max(2);
        let li = (case.layer as usize) % n;
        let bytes = make_bytes(&case.data);
        let prepop: Prepop = vec![(li, "/d/f".to_string(), Node::File(bytes.clone())), (n - 1, "/d/low".to_string(), Node::File(Arc::new(b"low".to_vec()))), (0, "/d/up".to_string(), Node::File(Arc::new(b"up".to_vec())))];
        let log: CallLog = Arc::new(Mutex::new(vec![]));
        let log2 = log.clone();
        let built = build_with(&case.cfg, &prepop, &move |fs, i| vfs::VfsPath::new(RecFS { inner: fs, layer: i, log: log2.clone() }))?;
        let root = built.root.clone();
        let lowers: Vec<DeepSnap> = built.layers.iter().skip(1).map(deep_snapshot).collect();
        let judge = |what: &str, observer: bool, trace: &[String]| -> Result<(), String> {
            let calls: Vec<Call> = std::mem::take(&mut *log.lock().unwrap());
            for c in &calls {
                if c.mutating && c.layer >= 1 {
                    return Err(format!("{}: mutating call {}('{}') reached layer {}", what, c.method, c.path, if c.layer == crate::wrap::OUTSIDE_LAYERS { "<outside every layer directory>".to_string() } else { c.layer.to_string() }));
                }
                if c.mutating && observer {
                    return Err(format!("observer {}: issued the mutating call {}('{}') to layer {}", what, c.method, c.path, c.layer));
                }
            }
            for (i, l) in built.layers.iter().skip(1).enumerate() {
                if deep_snapshot(l) != lowers[i] {
                    return Err(format!("{}: lower layer {} changed", what, i + 1));
                }
            }
            let _ = trace;
            Ok(())
        };
        let f = at(&root, "/d/f").map_err(|e| e.to_string())?;
        let mut h = crate::util::hold(if case.append { f.append_file() } else { f.create_file() }.map_err(|e| format!("opening the session failed: {}", e))?);
        let _ = h.write_all(b"session bytes");
        trace.push(format!("{} handle on '/d/f' (layer {}) opened, 13 bytes written", if case.append { "append" } else { "create" }, li));
        judge("opening the session", false, &trace)?;
        let rm = match case.removal {
            0 => Op::RemoveFile("/d/f".into()),
            1 => Op::RemoveDirAll("/d".into()),
            _ => Op::MoveFile("/d/f".into(), "/moved".into()),
        };
        let o = exec(&root, &rm);
        trace.push(format!("{} -> {}", rm.render(), o.class_str()));
        judge(&rm.render(), false, &trace)?;
        match case.recreate {
            1 => {
                let o = exec(&root, &Op::CreateDirAll("/d/f".into()));
                trace.push(format!("create_dir_all('/d/f') -> {}", o.class_str()));
            }
            2 => {
                let o = exec(&root, &Op::CreateDirAll("/d".into()));
                trace.push(format!("create_dir_all('/d') -> {}", o.class_str()));
            }
            _ => {}
        }
        judge("re-creation", false, &trace)?;
        let _ = h.flush();
        drop(h);
        trace.push("session handle flushed and dropped".into());
        judge("dropping the session handle", false, &trace)?;
        // every pure observer, on the file, its directory, the move target and the root
        for p in ["/d/f", "/d", "/moved", "", "/d/low", "/d/up"] {
            for op in [Op::Exists(p.into()), Op::Metadata(p.into()), Op::IsFile(p.into()), Op::IsDir(p.into()), Op::ReadDir(p.into()), Op::Read(p.into()), Op::ReadToString(p.into()), Op::WalkDir(p.into())] {
                let o = exec(&root, &op);
                if let crate::exec::Outcome::Panic(m) = &o {
                    return Err(format!("{} panicked: {}", op.render(), m));
                }
                trace.push(format!("{} -> {}", op.render(), o.class_str()));
                judge(&op.render(), true, &trace)?;
            }
        }
        Ok(())
    });
    let fail = |m: String| Failure { message: format!("stack {} | {}\n  trace:\n    {}", case.cfg.render(), m, trace.join("\n    ")), replay: sess_json(case) };
    match r {
        Err(p) => Err(fail(format!("PANIC: {}", p))),
        Ok(Err(m)) => Err(fail(m)),
        Ok(Ok(())) => {
            if counting {
                st.label("sessions_outliving_a_removal");
                st.label_n("observer_calls_after_such_sessions", 48);
                st.nontrivial.insert(crate::util::fnv_str(&format!("{:?}", case)));
            }
            Ok(())
        }
    }
}

pub fn run(ctx: &RunCtx) -> i32 {
    prop().run_with(
        ctx,
        Some(&|ctx: &RunCtx| {
            let (mut s, mut f) = run_sharded(ctx, "copyup", ctx.tier.pick(2500, 60_000), copyup_strategy, test_copyup);
            if f.is_none() {
                let (s2, f2) = run_sharded(ctx, "session", ctx.tier.pick(1500, 40_000), sess_strategy, test_sess);
                s.merge(s2);
                f = f2;
            }
            (s, f)
        }),
    )
}

pub fn replay(v: &Value) -> CaseResult {
    if v.get("kind").and_then(|k| k.as_str()) == Some("c08-copyup") {
        let case = copyup_from_json(v).ok_or_else(|| Failure { message: "unparsable C08 battery replay".into(), replay: v.clone() })?;
        let mut st = Stats::default();
        return test_copyup(&case, &mut st, false);
    }
    if v.get("kind").and_then(|k| k.as_str()) == Some("c08-session") {
        let g = |k: &str| v.get(k).and_then(|x| x.as_u64()).unwrap_or(0) as u8;
        let case = SessCase {
            cfg: Cfg::from_json(v.get("cfg").unwrap_or(&Value::Null)).unwrap_or(Cfg::Ovl(vec![Cfg::Mem, Cfg::Mem])),
            data: data_from_json(v.get("data").unwrap_or(&Value::Null)).unwrap_or(DataSpec { kind: 8, len: 3, seed: 0 }),
            layer: g("layer"),
            append: v.get("append").and_then(|x| x.as_bool()).unwrap_or(false),
            removal: g("removal"),
            recreate: g("recreate"),
        };
        let mut st = Stats::default();
        return test_sess(&case, &mut st, false);
    }
    prop().replay(v)
}
