//! C08 — OverlayFS never modifies lower layers; observers modify nothing.

use super::common::*;
use crate::gen::{overlay_cfg_strategy, Profile};
use crate::hist::*;

pub fn prop() -> HistProp {
    let mut opts = HistOpts::new(Profile::Typed);
    opts.lowers = true;
    opts.with_time = true;
    HistProp {
        opts,
        cfgs: || crate::gen::with_emb(overlay_cfg_strategy(2, 2)),
        max_ops: 30,
        max_prepop: 14,
        cases_quick: 6000,
        cases_thorough: 150_000,
        nontrivial: |s, c| s.lower_only_mutations >= 1 && (c.cfg.overlay_layers() >= 3 || c.cfg.nesting() >= 2),
        rule: "overlays of 2..4 pre-populated layers (Mem/Phys/altroot/nested overlay as layer), typed histories incl. timestamp setters; every top-level layer is wrapped in a recorder: after each op no mutating trait call (create_*, append_file, remove_*, set_*_time, copy/move) and no handle write reached a layer with index>=1, pure observers (and the snapshot that follows every step) issued no mutating call to any layer, and a deep snapshot (types, bytes, created+modified times) of every lower layer taken through its own root is unchanged; non-trivial = >=1 mutating op on an entry that exists only in a lower layer, in a stack with >=3 layers or a nested adapter",
        floors: vec![("distinct_nontrivial", 50)],
        assumptions: vec![
            "access time of lower-layer entries is excluded from the deep snapshot (reading updates it in MemoryFS and in the OS)",
            "wrappers see trait-level calls; a layer mutating itself inside an observer method is only caught by the deep snapshot",
        ],
        exclude: crate::findings::hist_excluder("C08"),
        labeler: |s, _, st| {
            st.label_n("lower_only_mutations", s.lower_only_mutations as u64);
        },
    }
}
