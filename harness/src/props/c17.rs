//! C17 — concurrent create_dir_all calls all succeed.

use crate::config::*;
use crate::engine::*;
use crate::exec::*;
use crate::model::*;
use crate::sched::*;
use proptest::prelude::*;
use serde_json::{json, Value};
use std::time::Duration;
use vfs::VfsPath;

#[derive(Clone, Debug)]
pub struct Case {
    pub cfg: Cfg,
    /// directories that exist beforehand (created through the stack's root)
    pub pre: Vec<Vec<u8>>,
    /// directories in the lower layer of overlays
    pub lower: Vec<Vec<u8>>,
    /// directories created and removed again before the concurrent phase (overlay: leaves markers)
    pub removed: Vec<Vec<u8>>,
    /// one create_dir_all target per thread
    pub threads: Vec<Vec<u8>>,
    /// number of unrelated directories ('/zbulk/d<i>') that exist beforehand: tables of a few
    /// dozen entries cross growth thresholds during the concurrent phase
    pub bulk: u8,
}

const NAMES: [&str; 3] = ["a", "b", "c"];

fn path_of(c: &[u8]) -> String {
    let mut s = String::new();
    for x in c {
        s.push('/');
        // heavily biased to "a" so that prefixes of every length are shared
        s.push_str(NAMES[match x % 8 {
            0..=4 => 0,
            5 | 6 => 1,
            _ => 2,
        }]);
    }
    s
}

fn cfgs() -> BoxedStrategy<Cfg> {
    prop_oneof![
        4 => Just(Cfg::Mem),
        2 => Just(Cfg::Alt(Box::new(Cfg::Mem), 1)),
        4 => Just(Cfg::Ovl(vec![Cfg::Mem, Cfg::Mem])),
        1 => Just(Cfg::Ovl(vec![Cfg::Mem, Cfg::Mem, Cfg::Mem])),
        2 => Just(Cfg::OvlSub(Box::new(Cfg::Mem), 2)),
        1 => Just(Cfg::Alt(Box::new(Cfg::Ovl(vec![Cfg::Mem, Cfg::Mem])), 1)),
        3 => Just(Cfg::Phys),
        1 => Just(Cfg::Alt(Box::new(Cfg::Phys), 2)),
        2 => Just(Cfg::Ovl(vec![Cfg::Phys, Cfg::Mem])),
        1 => Just(Cfg::Ovl(vec![Cfg::Mem, Cfg::Phys])),
        1 => Just(Cfg::Alt(Box::new(Cfg::Alt(Box::new(Cfg::Mem), 1)), 1)),
        1 => Just(Cfg::Ovl(vec![Cfg::Alt(Box::new(Cfg::Mem), 1), Cfg::Mem])),
    ]
    .boxed()
}

fn comps() -> impl Strategy<Value = Vec<u8>> {
    proptest::collection::vec(any::<u8>(), 1..=4)
}

/// thread targets: depth 1..4 as the property's quantifier says, and now and then deeper ones
/// (the statement itself speaks of arbitrary paths)
fn target_comps() -> impl Strategy<Value = Vec<u8>> {
    prop_oneof![6 => proptest::collection::vec(any::<u8>(), 1..=4), 1 => proptest::collection::vec(any::<u8>(), 5..=7)]
}

fn strategy() -> impl Strategy<Value = Case> {
    (cfgs(), proptest::collection::vec(comps(), 0..=2), proptest::collection::vec(comps(), 0..=2), proptest::collection::vec(comps(), 0..=2), proptest::collection::vec(target_comps(), 2..=4), prop_oneof![3 => Just(0u8), 1 => 36u8..=62, 1 => 100u8..=118])
        .prop_map(|(cfg, pre, lower, removed, threads, bulk)| Case { cfg, pre, lower, removed, threads, bulk })
}

fn setup(case: &Case) -> Result<Built, String> {
    let n = case.cfg.overlay_layers();
    let mut prepop: Prepop = vec![];
    if n >= 2 {
        for l in &case.lower {
            prepop.push((n - 1, path_of(l), Node::Dir));
        }
    }
    let built = build(&case.cfg, &prepop)?;
    for i in 0..case.bulk {
        at(&built.root, &format!("/zbulk/d{}", i)).map_err(|e| e.to_string())?.create_dir_all().map_err(|e| format!("setup bulk: {}", e))?;
    }
    for p in &case.pre {
        at(&built.root, &path_of(p)).map_err(|e| e.to_string())?.create_dir_all().map_err(|e| format!("setup create_dir_all('{}'): {}", path_of(p), e))?;
    }
    for r in &case.removed {
        let p = at(&built.root, &path_of(r)).map_err(|e| e.to_string())?;
        p.create_dir_all().map_err(|e| format!("setup create_dir_all('{}'): {}", path_of(r), e))?;
        p.remove_dir_all().map_err(|e| format!("setup remove_dir_all('{}'): {}", path_of(r), e))?;
    }
    Ok(built)
}

type Worker = Box<dyn FnOnce(&dyn Fn(&'static str)) -> Outcome + Send>;

fn check_after(root: &VfsPath, targets: &[String], outs: &[Outcome]) -> Result<(), String> {
    for (t, o) in outs.iter().enumerate() {
        match o {
            Outcome::Ok(_) => {}
            other => return Err(format!("thread {}: create_dir_all('{}') returned {}", t, targets[t], other.render())),
        }
    }
    for t in targets {
        let mut chain = ancestors_of(t);
        chain.push(t.clone());
        for a in chain {
            let p = at(root, &a).map_err(|e| e.to_string())?;
            if !matches!(p.is_dir(), Ok(true)) {
                return Err(format!("after all calls returned Ok, '{}' (requested '{}') is not a directory", a, t));
            }
        }
    }
    Ok(())
}

pub struct Verdict {
    pub stats: ExploreStats,
    pub shared_missing_prefix: bool,
}

fn check_case(case: &Case, cap: u64, max_bound: usize, random_after: u64, seed: u64, first_schedule: Option<&[usize]>) -> Result<Verdict, Failure> {
    let targets: Vec<String> = case.threads.iter().map(|t| path_of(t)).collect();
    let mk = |msg: String, schedule: &[usize]| Failure {
        message: format!("stack {} | pre-existing {:?} | lower layer {:?} | created-then-removed {:?} | concurrent create_dir_all on {:?}: {}\n  schedule (thread id per decision): {:?}", case.cfg.render(), case.pre.iter().map(|p| path_of(p)).collect::<Vec<_>>(), case.lower.iter().map(|p| path_of(p)).collect::<Vec<_>>(), case.removed.iter().map(|p| path_of(p)).collect::<Vec<_>>(), targets, msg, schedule),
        replay: json!({"kind": "c17", "case": case_to_json(case), "schedule": schedule}),
    };
    // sanity: setup must work
    if let Err(e) = setup(case) {
        return Err(mk(format!("sequential setup failed: {}", e), &[]));
    }
    let current: std::cell::RefCell<Option<Built>> = std::cell::RefCell::new(None);
    let make = || {
        let built = setup(case).expect("setup");
        let root = built.root.clone();
        *current.borrow_mut() = Some(built);
        targets
            .iter()
            .map(|t| {
                let root = root.clone();
                let t = t.clone();
                Box::new(move |_b: &dyn Fn(&'static str)| exec(&root, &Op::CreateDirAll(t))) as Worker
            })
            .collect::<Vec<Worker>>()
    };
    let mut check = |_ds: &[Decision], end: &RunEnd<Outcome>| -> Result<(), String> {
        match end {
            RunEnd::Hang(t, l) => Err(format!("DEADLOCK/HANG: thread {} did not reach its next yield point after '{}'", t, l)),
            RunEnd::Done(outs) => {
                let b = current.borrow();
                check_after(&b.as_ref().unwrap().root, &targets, outs)
            }
        }
    };
    if let Some(sched) = first_schedule {
        let (ds, end) = run_one(make(), sched, Duration::from_secs(10));
        if let Err(m) = check(&ds, &end) {
            return Err(mk(m, sched));
        }
    }
    let (stats, bad) = explore(&make, &mut check, cap, max_bound, random_after, seed, Duration::from_secs(10));
    if let Some((schedule, msg)) = bad {
        return Err(mk(msg, &schedule));
    }
    // do two threads share a non-empty proper prefix that does not exist beforehand?
    let existing = {
        let b = setup(case).map_err(|e| mk(e, &[]))?;
        crate::observe::snapshot(&b.root).tree
    };
    let mut shared = false;
    for i in 0..targets.len() {
        for j in i + 1..targets.len() {
            let mut ci = ancestors_of(&targets[i]);
            ci.push(targets[i].clone());
            let mut cj = ancestors_of(&targets[j]);
            cj.push(targets[j].clone());
            if ci.iter().any(|a| !a.is_empty() && cj.contains(a) && !existing.exists(a)) {
                shared = true;
            }
        }
    }
    Ok(Verdict { stats, shared_missing_prefix: shared })
}

/// a free-running round normally takes well under a millisecond
const STRESS_DEADLOCK_SECS: u64 = 40;

/// (b) free-running threads released by a barrier (adds evidence only; PhysicalFS stacks)
fn stress_round(case: &Case) -> Result<(), String> {
    let built = setup(case)?;
    // every target twice: 4..8 truly parallel callers (no scheduler, no hooks installed)
    let mut targets: Vec<String> = case.threads.iter().map(|t| path_of(t)).collect();
    targets.extend(targets.clone());
    let barrier = std::sync::Arc::new(std::sync::Barrier::new(targets.len()));
    // detached threads reporting through a channel: callers that block each other for ever (a
    // round normally takes well under a millisecond) are reported instead of hanging the check
    let (tx, rx) = std::sync::mpsc::channel::<(usize, Outcome)>();
    for (i, t) in targets.iter().enumerate() {
        let root = built.root.clone();
        let b = barrier.clone();
        let t = t.clone();
        let tx = tx.clone();
        std::thread::spawn(move || {
            b.wait();
            let o = exec(&root, &Op::CreateDirAll(t));
            let _ = tx.send((i, o));
        });
    }
    drop(tx);
    let mut slots: Vec<Option<Outcome>> = targets.iter().map(|_| None).collect();
    let deadline = std::time::Instant::now() + Duration::from_secs(STRESS_DEADLOCK_SECS);
    for _ in 0..targets.len() {
        match rx.recv_timeout(deadline.saturating_duration_since(std::time::Instant::now())) {
            Ok((i, o)) => slots[i] = Some(o),
            Err(_) => {
                let stuck: Vec<&String> = targets.iter().zip(&slots).filter(|(_, s)| s.is_none()).map(|(t, _)| t).collect();
                return Err(format!("{} of {} concurrent create_dir_all callers did not return within {} s (they block each other: deadlock); still inside: {:?}", stuck.len(), targets.len(), STRESS_DEADLOCK_SECS, stuck));
            }
        }
    }
    let outs: Vec<Outcome> = slots.into_iter().map(|s| s.unwrap()).collect();
    check_after(&built.root, &targets, &outs)
}

fn case_to_json(c: &Case) -> Value {
    json!({"cfg": c.cfg.to_json(), "pre": c.pre, "lower": c.lower, "removed": c.removed, "threads": c.threads, "bulk": c.bulk})
}

fn case_from_json(v: &Value) -> Option<Case> {
    let vv = |k: &str| -> Option<Vec<Vec<u8>>> { Some(v.get(k)?.as_array()?.iter().map(|a| a.as_array().map(|x| x.iter().filter_map(|y| y.as_u64().map(|z| z as u8)).collect()).unwrap_or_default()).collect()) };
    Some(Case { cfg: Cfg::from_json(v.get("cfg")?)?, pre: vv("pre")?, lower: vv("lower")?, removed: vv("removed")?, threads: vv("threads")?, bulk: v.get("bulk").and_then(|x| x.as_u64()).unwrap_or(0) as u8 })
}

pub fn replay(v: &Value) -> CaseResult {
    let case = case_from_json(v.get("case").unwrap_or(&Value::Null)).ok_or_else(|| Failure { message: "unparsable C17 replay".into(), replay: v.clone() })?;
    if v.get("kind").and_then(|k| k.as_str()) == Some("c17-stress") {
        // timing-dependent: many free-running rounds of the recorded path set
        for round in 0..4000 {
            if let Err(m) = stress_round(&case) {
                return Err(Failure { message: format!("free-running round {}: {}", round, m), replay: v.clone() });
            }
        }
        return Ok(());
    }
    {
        let sched: Option<Vec<usize>> = v.get("schedule").and_then(|x| x.as_array()).map(|a| a.iter().filter_map(|y| y.as_u64().map(|z| z as usize)).collect());
        check_case(&case, 2500, 3, 200, 1, sched.as_deref()).map(|_| ())
    }
}

const RULE: &str = "2..4 threads, each one create_dir_all on a path of depth 1..4 (one target in seven: depth 5..7) over the names {a (62%), b, c} so that prefixes of every length are shared (identical, nested, sibling, disjoint targets); optional pre-existing directories (in two cases of five also 36..118 unrelated ones, so that tables cross growth thresholds), directories in the lower overlay layer, and directories created-and-removed before the concurrent phase (overlay deletion markers); stacks Mem, altroot(Mem), overlay[Mem,Mem(,Mem)], overlay on sub-paths, altroot(overlay), altroot(altroot(Mem)), overlay with an altroot as upper layer, Phys, altroot(Phys), overlay with a Phys layer; schedules: decision at every MemoryFS lock acquisition and at PhysicalFS::create_dir, enumerated depth-first with iterative preemption bounding up to the cap (exhaustive when the tree fits), then random schedules; PLUS barrier-released truly parallel rounds (4..8 OS threads, no scheduler) on every stack, which reach contention-dependent behaviour the cooperative scheduler cannot; oracle: every call returns (callers of a truly parallel round that are still blocked after 40 s are a deadlock) with Ok and afterwards every requested path and each ancestor is a directory; non-trivial = >=2 threads whose targets share a non-empty prefix that does not exist beforehand, explored with >=1 preemption; evaluations = scheduled executions";

pub fn run(ctx: &RunCtx) -> i32 {
    // a single case explores thousands of schedules: keep shrinking short
    let ctx = &RunCtx { shrink_iters: 48, ..ctx.clone() };
    let reg = crate::regress::run_for(&ctx.id, &replay);
    if let Some((path, msg)) = &reg.violation {
        println!("--- regression input fails ---\n{}", msg);
        println!("VIOLATION property={} replay={}", ctx.id, path);
        return 1;
    }
    let (cap, max_bound, random_after, cases) = match ctx.tier {
        Tier::Quick => (1200u64, 2usize, 500u64, 176u32),
        Tier::Thorough => (20_000, 3, 2000, 400),
    };
    let (mut stats, mut failure) = run_sharded(ctx, "sets", cases, strategy, |c, st, counting| {
        let v = check_case(c, cap, max_bound, random_after, ctx.seed, None)?;
        if counting {
            st.evaluations += v.stats.schedules.saturating_sub(1);
            st.label(&format!("cfg:{}", c.cfg.shape()));
            st.label(&format!("threads:{}", c.threads.len()));
            st.label_n("schedules", v.stats.schedules);
            if v.stats.exhausted {
                st.label("path_sets_with_exhausted_schedule_tree");
            }
            if !c.removed.is_empty() && c.cfg.contains_overlay() {
                st.label("overlay_cases_with_prior_removal");
            }
            let nt = v.shared_missing_prefix && v.stats.max_preemptions_seen >= 1;
            if nt {
                st.nontrivial.insert(crate::util::fnv_str(&format!("{:?}", c)));
            }
            st.sample(json!({"stack": c.cfg.render(), "targets": c.threads.iter().map(|t| path_of(t)).collect::<Vec<_>>(), "pre": c.pre.iter().map(|t| path_of(t)).collect::<Vec<_>>(), "removed_before": c.removed.iter().map(|t| path_of(t)).collect::<Vec<_>>(), "schedules": v.stats.schedules, "exhausted": v.stats.exhausted}), nt);
        }
        Ok(())
    });
    if failure.is_none() {
        // (b) truly parallel callers (timing-dependent; reaches what the cooperative scheduler
        // cannot: behaviour that depends on a lock being CONTENDED, e.g. try_lock fast paths).
        // A failure is a real counterexample to "all return success"; its replay re-runs the
        // path set for many rounds.
        let (ncases, rounds) = match ctx.tier {
            Tier::Quick => (64u32, 60u64),
            Tier::Thorough => (512, 400),
        };
        let stress_ctx = RunCtx { shrink_iters: 0, ..ctx.clone() };
        let (s2, f2) = run_sharded(&stress_ctx, "stress", ncases, strategy, |c, st, counting| {
            // physical stacks are slower: fewer rounds
            let rounds = if c.cfg.contains_phys() { rounds / 4 } else { rounds };
            for round in 0..rounds {
                if let Err(m) = stress_round(c) {
                    return Err(Failure { message: format!("stack {} | {} free-running threads, round {}: {}", c.cfg.render(), c.threads.len() * 2, round, m), replay: json!({"kind": "c17-stress", "case": case_to_json(c)}) });
                }
            }
            if counting {
                st.evaluations += rounds.saturating_sub(1);
                st.label_n("parallel_stress_rounds", rounds);
                st.label(&format!("stress_cfg:{}", c.cfg.shape()));
            }
            Ok(())
        });
        stats.merge(s2);
        failure = f2;
    }
    write_evidence(
        ctx,
        "exploration",
        RULE,
        &stats,
        json!({"regress_replayed": reg.replayed, "schedule_cap_per_path_set": cap, "max_preemption_bound": max_bound}),
        &["no concurrent removals and no files in the way, as the property states", "on PhysicalFS the interleaving granularity is the create_dir call (the OS serialises mkdir)", "the parallel stress rounds are timing-dependent: they can only add evidence or produce a real counterexample, never a false one"],
        failure.is_some() as u32,
    );
    finish(ctx, &stats, &failure, &[("distinct_nontrivial", 10), ("parallel_stress_rounds", 1000)])
}
