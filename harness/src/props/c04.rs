//! C04 — files return exactly the bytes that were written (session sequences, all read sizes).

use crate::config::*;
use crate::engine::*;
use crate::exec::at;
use crate::gen::*;
use crate::handles::*;
use crate::model::Node;
use crate::util::{guarded, idx, show_bytes};
use proptest::prelude::*;
use serde_json::{json, Value};
use std::collections::BTreeMap;
use std::io::{Cursor, Read, Write};
use vfs::{VfsFileType, VfsPath};

#[derive(Clone, Debug)]
pub enum Session {
    Create(u8, Vec<WOp>),
    Append(u8, Vec<DataSpec>),
    Copy(u8, u8),
    Move(u8, u8),
}

#[derive(Clone, Debug)]
pub struct Case {
    pub cfg: Cfg,
    /// initial lower-layer content of path 0 (overlay copy-up)
    pub lower: Option<DataSpec>,
    pub sessions: Vec<Session>,
}

const PATHS: [&str; 4] = ["/d/f0", "/d/f1", "/g", "/d/e/h"];

fn session_strategy() -> impl Strategy<Value = Session> {
    prop_oneof![
        5 => (any::<u8>(), proptest::collection::vec(wop_strategy(), 0..12)).prop_map(|(p, s)| Session::Create(p, s)),
        4 => (any::<u8>(), proptest::collection::vec(data_strategy(), 1..4)).prop_map(|(p, c)| Session::Append(p, c)),
        2 => (any::<u8>(), any::<u8>()).prop_map(|(a, b)| Session::Copy(a, b)),
        2 => (any::<u8>(), any::<u8>()).prop_map(|(a, b)| Session::Move(a, b)),
    ]
}

fn strategy() -> impl Strategy<Value = Case> {
    (cfg_strategy(2), proptest::option::of(data_strategy()), proptest::collection::vec(session_strategy(), 1..=8))
        .prop_map(|(cfg, lower, sessions)| Case { cfg, lower, sessions })
}

/// read the whole file with a manual loop and a fixed buffer size
fn read_with(root: &VfsPath, p: &str, bufsize: usize) -> Result<Vec<u8>, String> {
    let mut f = at(root, p).map_err(|e| e.to_string())?.open_file().map_err(|e| format!("open_file('{}'): {}", p, e))?;
    let mut out = vec![];
    if bufsize == 0 {
        f.read_to_end(&mut out).map_err(|e| format!("read_to_end('{}'): {}", p, e))?;
        return Ok(out);
    }
    let mut buf = vec![0u8; bufsize];
    let mut guard = 0u64;
    loop {
        let n = f.read(&mut buf).map_err(|e| format!("read('{}'): {}", p, e))?;
        if n == 0 {
            break;
        }
        if n > bufsize {
            return Err(format!("read returned {} for a buffer of {}", n, bufsize));
        }
        out.extend_from_slice(&buf[..n]);
        guard += 1;
        if guard > 3_000_000 || out.len() > 100_000_000 {
            return Err("reader does not terminate".into());
        }
    }
    Ok(out)
}

fn verify_all(root: &VfsPath, model: &BTreeMap<String, Vec<u8>>, st_bufsizes: &mut u64) -> Result<(), String> {
    for p in PATHS {
        let vp = at(root, p).map_err(|e| e.to_string())?;
        match model.get(p) {
            None => {
                if vp.exists().map_err(|e| e.to_string())? {
                    return Err(format!("'{}' exists although the model has no such file", p));
                }
            }
            Some(bytes) => {
                let len = bytes.len();
                let md = vp.metadata().map_err(|e| format!("metadata('{}'): {}", p, e))?;
                if md.file_type != VfsFileType::File || md.len != len as u64 {
                    return Err(format!("metadata('{}') = ({:?}, len {}) but {} bytes were written", p, md.file_type, md.len, len));
                }
                let mut sizes = vec![0usize, 4096, 8192, 8193, len.max(1), len + 1, if len > 1_000_000 { 28_693 } else { 7 }];
                if len <= 20_000 {
                    sizes.extend([1, 2, 3]);
                }
                for bs in sizes {
                    *st_bufsizes += 1;
                    let got = read_with(root, p, bs)?;
                    if got != *bytes {
                        let first = got.iter().zip(bytes.iter()).position(|(a, b)| a != b).unwrap_or(got.len().min(len));
                        return Err(format!(
                            "fresh read of '{}' with buffer size {} returned {} but the written bytes are {} (lengths {} vs {}, first difference at {})",
                            p, bs, show_bytes(&got), show_bytes(bytes), got.len(), len, first
                        ));
                    }
                }
                let s = vp.read_to_string();
                match (std::str::from_utf8(bytes), s) {
                    (Ok(e), Ok(g)) => {
                        if e != g {
                            return Err(format!("read_to_string('{}') differs from the written text", p));
                        }
                    }
                    (Err(_), Err(_)) => {}
                    (Ok(_), Err(e)) => return Err(format!("read_to_string('{}') failed on valid UTF-8: {}", p, e)),
                    (Err(_), Ok(_)) => return Err(format!("read_to_string('{}') succeeded on invalid UTF-8", p)),
                }
            }
        }
    }
    for d in ["", "/d", "/d/e"] {
        let md = at(root, d).map_err(|e| e.to_string())?.metadata().map_err(|e| format!("metadata('{}'): {}", d, e))?;
        if md.file_type != VfsFileType::Directory || md.len != 0 {
            return Err(format!("directory '{}' reports ({:?}, len {})", d, md.file_type, md.len));
        }
    }
    Ok(())
}

fn test(case: &Case, st: &mut Stats, counting: bool) -> CaseResult {
    let mut trace: Vec<String> = vec![];
    let mut facts = (0usize, false, false, false, 0u64); // sessions on one path, boundary len, seek, copyup, bufsizes
    let r = guarded(|| -> Result<(), String> {
        let n = case.cfg.overlay_layers();
        let mut prepop: Prepop = vec![(0, "/d/e".to_string(), Node::Dir)];
        let mut model: BTreeMap<String, Vec<u8>> = BTreeMap::new();
        if let (Some(d), true) = (&case.lower, n >= 2) {
            let b = make_bytes(d);
            prepop.push((n - 1, PATHS[0].to_string(), Node::File(b.clone())));
            model.insert(PATHS[0].to_string(), b.as_ref().clone());
            if n >= 3 && d.seed % 2 == 0 {
                // the same name in two read-only layers with different bytes: the upper one is served
                let mut d2 = d.clone();
                d2.seed = d2.seed.wrapping_add(1);
                d2.len = d2.len.wrapping_add(7);
                let b2 = make_bytes(&d2);
                prepop.push((n - 2, PATHS[0].to_string(), Node::File(b2.clone())));
                model.insert(PATHS[0].to_string(), b2.as_ref().clone());
            }
            facts.3 = true;
        }
        let built = build(&case.cfg, &prepop)?;
        let root = built.root.clone();
        let mut per_path: BTreeMap<String, usize> = BTreeMap::new();
        verify_all(&root, &model, &mut facts.4)?;
        for s in &case.sessions {
            match s {
                Session::Create(pi, script) => {
                    let p = PATHS[idx((*pi as u16) << 8, PATHS.len())];
                    trace.push(format!("create session on {} ({} ops)", p, script.len()));
                    let vp = at(&root, p).map_err(|e| e.to_string())?;
                    let mut cur = Cursor::new(vec![]);
                    {
                        let mut h = crate::util::hold(vp.create_file().map_err(|e| format!("create_file('{}'): {}", p, e))?);
                        let root2 = root.clone();
                        let mut check = |m: &[u8]| -> Result<(), String> {
                            let got = read_with(&root2, p, 0)?;
                            if got != m {
                                return Err(format!("data flushed through the open handle of '{}' is not visible: reader sees {} expected {}", p, show_bytes(&got), show_bytes(m)));
                            }
                            Ok(())
                        };
                        if run_write_script(&mut h, &mut cur, script, true, &mut trace, &mut check)? {
                            facts.2 = true;
                        }
                    }
                    model.insert(p.to_string(), cur.into_inner());
                    *per_path.entry(p.to_string()).or_insert(0) += 1;
                }
                Session::Append(pi, chunks) => {
                    let p = PATHS[idx((*pi as u16) << 8, PATHS.len())];
                    let vp = at(&root, p).map_err(|e| e.to_string())?;
                    trace.push(format!("append session on {} ({} chunks)", p, chunks.len()));
                    match model.get(p).cloned() {
                        None => {
                            if vp.append_file().is_ok() {
                                return Err(format!("append_file('{}') succeeded on a missing file", p));
                            }
                        }
                        Some(mut bytes) => {
                            {
                                let mut h = crate::util::hold(vp.append_file().map_err(|e| format!("append_file('{}'): {}", p, e))?);
                                for c in chunks {
                                    let b = make_bytes(c);
                                    h.write_all(&b).map_err(|e| format!("append write: {}", e))?;
                                    bytes.extend_from_slice(&b);
                                }
                            }
                            model.insert(p.to_string(), bytes);
                            *per_path.entry(p.to_string()).or_insert(0) += 1;
                        }
                    }
                }
                Session::Copy(a, b) | Session::Move(a, b) => {
                    let is_move = matches!(s, Session::Move(..));
                    let sp = PATHS[idx((*a as u16) << 8, PATHS.len())];
                    let dp = PATHS[idx((*b as u16) << 8, PATHS.len())];
                    let svp = at(&root, sp).map_err(|e| e.to_string())?;
                    let dvp = at(&root, dp).map_err(|e| e.to_string())?;
                    trace.push(format!("{} {} -> {}", if is_move { "move_file" } else { "copy_file" }, sp, dp));
                    let r = if is_move { svp.move_file(&dvp) } else { svp.copy_file(&dvp) };
                    let src = model.get(sp).cloned();
                    if src.is_none() || model.contains_key(dp) {
                        if r.is_ok() {
                            return Err(format!("transfer {} -> {} succeeded although the source is missing or the destination exists", sp, dp));
                        }
                    } else {
                        r.map_err(|e| format!("transfer {} -> {} failed: {}", sp, dp, e))?;
                        model.insert(dp.to_string(), src.unwrap());
                        if is_move {
                            model.remove(sp);
                        }
                        *per_path.entry(dp.to_string()).or_insert(0) += 1;
                    }
                }
            }
            verify_all(&root, &model, &mut facts.4)?;
        }
        facts.0 = per_path.values().copied().max().unwrap_or(0);
        facts.1 = model.values().any(|b| (8191..=8193).contains(&b.len()) || b.len() >= 65536);
        Ok(())
    });
    let fail = |msg: String| Failure {
        message: format!("stack {}: {}\n  sessions:\n    {}", case.cfg.render(), msg, trace.join("\n    ")),
        replay: json!({"kind": "c04", "cfg": case.cfg.to_json(), "lower": case.lower.as_ref().map(crate::hist::data_to_json), "sessions": sessions_to_json(&case.sessions)}),
    };
    match r {
        Err(p) => Err(fail(format!("PANIC: {}", p))),
        Ok(Err(m)) => Err(fail(m)),
        Ok(Ok(())) => {
            if counting {
                let nt = facts.0 >= 2 && (facts.1 || facts.2);
                st.label(&format!("cfg:{}", case.cfg.top()));
                st.label_n("sessions", case.sessions.len() as u64);
                st.label_n("fresh_reads_by_bufsize", facts.4);
                if facts.1 {
                    st.label("boundary_or_large_content");
                }
                if facts.3 {
                    st.label("overlay_lower_file");
                }
                if nt {
                    st.nontrivial.insert(crate::util::fnv_str(&format!("{:?}", case)));
                }
                st.sample(json!({"stack": case.cfg.render(), "sessions": trace.iter().take(14).collect::<Vec<_>>()}), nt);
            }
            Ok(())
        }
    }
}

fn sessions_to_json(s: &[Session]) -> Value {
    Value::Array(
        s.iter()
            .map(|x| match x {
                Session::Create(p, sc) => json!({"create": p, "script": wops_to_json(sc)}),
                Session::Append(p, c) => json!({"append": p, "chunks": c.iter().map(crate::hist::data_to_json).collect::<Vec<_>>()}),
                Session::Copy(a, b) => json!({"copy": [a, b]}),
                Session::Move(a, b) => json!({"move": [a, b]}),
            })
            .collect(),
    )
}

fn sessions_from_json(v: &Value) -> Vec<Session> {
    let mut out = vec![];
    for x in v.as_array().cloned().unwrap_or_default() {
        if let Some(p) = x.get("create").and_then(|p| p.as_u64()) {
            out.push(Session::Create(p as u8, wops_from_json(x.get("script").unwrap_or(&Value::Null))));
        } else if let Some(p) = x.get("append").and_then(|p| p.as_u64()) {
            let chunks = x.get("chunks").and_then(|c| c.as_array()).map(|a| a.iter().filter_map(crate::hist::data_from_json).collect()).unwrap_or_default();
            out.push(Session::Append(p as u8, chunks));
        } else if let Some(a) = x.get("copy").and_then(|p| p.as_array()) {
            out.push(Session::Copy(a[0].as_u64().unwrap_or(0) as u8, a[1].as_u64().unwrap_or(0) as u8));
        } else if let Some(a) = x.get("move").and_then(|p| p.as_array()) {
            out.push(Session::Move(a[0].as_u64().unwrap_or(0) as u8, a[1].as_u64().unwrap_or(0) as u8));
        }
    }
    out
}

pub fn replay(v: &Value) -> CaseResult {
    let case = Case {
        cfg: Cfg::from_json(v.get("cfg").unwrap_or(&Value::Null)).unwrap_or(Cfg::Mem),
        lower: v.get("lower").and_then(crate::hist::data_from_json),
        sessions: sessions_from_json(v.get("sessions").unwrap_or(&Value::Null)),
    };
    let mut st = Stats::default();
    test(&case, &mut st, false)
}

const RULE: &str = "per case a backend stack (Mem/Phys/altroot/overlay incl. a lower-layer file for copy-up, nesting<=2), 4 file paths and 1..8 sessions: create with a write/seek/flush script, append with 1..3 chunks, copy_file, move_file; lengths from {0,1,2..41,8190..8194,16383..16385,65536+k,100..3100}, text/binary/non-UTF-8 bytes; after every session every file is re-read by a FRESH reader with buffer sizes {read_to_end,1,2,3,7,4096,8192,8193,len,len+1} and must equal the Cursor/Vec reference model, metadata.len must match, read_to_string Ok iff valid UTF-8, directories report len 0, data flushed through a still-open handle is visible; non-trivial = >=2 completed sessions on one path and a boundary/large length or a seek inside a create script";

pub fn run(ctx: &RunCtx) -> i32 {
    let reg = crate::regress::run_for(&ctx.id, &replay);
    if let Some((path, msg)) = &reg.violation {
        println!("--- regression input fails ---\n{}", msg);
        println!("VIOLATION property={} replay={}", ctx.id, path);
        return 1;
    }
    let (stats, failure) = run_sharded(ctx, "sessions", ctx.tier.pick(5000, 200_000), strategy, test);
    write_evidence(ctx, "exploration", RULE, &stats, json!({"regress_replayed": reg.replayed}), &["files <= ~20 MiB (most below 1 MiB)", "seeks on append handles are covered by C14 (memory only)"], failure.is_some() as u32);
    finish(ctx, &stats, &failure, &[("distinct_nontrivial", 100), ("overlay_lower_file", 20), ("boundary_or_large_content", 50)])
}
