//! C02 — MemoryFS is a faithful stand-in for PhysicalFS (lock-step differential).

use crate::config::*;
use crate::engine::*;
use crate::exec::*;
use crate::gen::*;
use crate::handles::*;
use crate::hist::*;
use crate::model::*;
use crate::observe::*;
use crate::util::guarded;
use proptest::prelude::*;
use serde_json::{json, Value};
use std::io::Seek;
use vfs::VfsPath;

#[derive(Clone, Debug)]
pub struct Case {
    pub base: HistCase,
    pub scripts: Vec<Vec<ROp>>,
    pub wscripts: Vec<Vec<WOp>>,
}

fn strategy() -> impl Strategy<Value = Case> {
    (
        hist_strategy(Just(Cfg::Mem).boxed(), 40, 0),
        proptest::collection::vec(proptest::collection::vec(rop_strategy(), 1..12), 0..4),
        proptest::collection::vec(proptest::collection::vec(wop_strategy(), 1..10), 0..4),
    )
        .prop_map(|(base, scripts, wscripts)| Case { base, scripts, wscripts })
}

fn read_full(h: &mut dyn ReadSeek, want: usize) -> Result<Vec<u8>, String> {
    let mut out = vec![0u8; want];
    let mut got = 0;
    while got < want {
        let n = h.read(&mut out[got..]).map_err(|e| e.to_string())?;
        if n == 0 {
            break;
        }
        got += n;
    }
    out.truncate(got);
    Ok(out)
}

/// run the same read script on both handles, comparing call by call
fn diff_script(m: &VfsPath, p: &VfsPath, path: &str, len: u64, script: &[ROp], trace: &mut Vec<String>) -> Result<(), String> {
    let mut hm = at(m, path).map_err(|e| e.to_string())?.open_file().map_err(|e| format!("memory open_file: {}", e))?;
    let mut hp = at(p, path).map_err(|e| e.to_string())?.open_file().map_err(|e| format!("physical open_file: {}", e))?;
    for op in script {
        match op {
            ROp::Seek(w, o) => {
                let sf = seek_from(w, o, len, false, None);
                let a = hm.seek(sf);
                let b = hp.seek(sf);
                trace.push(format!("  script seek({:?}) -> mem {:?} / phys {:?}", sf, a.as_ref().map_err(|e| e.kind()), b.as_ref().map_err(|e| e.kind())));
                match (a, b) {
                    (Ok(x), Ok(y)) if x == y => {}
                    (Err(_), Err(_)) => {}
                    (a, b) => return Err(format!("read handle of '{}': seek({:?}) gives {:?} on MemoryFS but {:?} on PhysicalFS", path, sf, a.map_err(|e| e.to_string()), b.map_err(|e| e.to_string()))),
                }
            }
            ROp::ReadToEnd(_) => {
                let (mut va, mut vb) = (vec![], vec![]);
                let a = std::io::Read::read_to_end(&mut hm, &mut va);
                let b = std::io::Read::read_to_end(&mut hp, &mut vb);
                trace.push(format!("  script read_to_end -> mem {:?} / phys {:?}", a.as_ref().map_err(|e| e.kind()), b.as_ref().map_err(|e| e.kind())));
                if a.is_ok() != b.is_ok() || (a.is_ok() && va != vb) {
                    return Err(format!("read handle of '{}': read_to_end gives {:?} bytes on MemoryFS but {:?} on PhysicalFS", path, a.map(|_| va.len()).map_err(|e| e.to_string()), b.map(|_| vb.len()).map_err(|e| e.to_string())));
                }
            }
            ROp::Drain(k) => {
                let piece = drain_piece(*k, len);
                let drain = |h: &mut dyn std::io::Read| -> Result<Vec<u8>, String> {
                    let mut out = vec![];
                    let mut buf = [0u8; 2048];
                    for _ in 0..400_000 {
                        match h.read(&mut buf[..piece]) {
                            Ok(0) => return Ok(out),
                            Ok(n) => out.extend_from_slice(&buf[..n.min(piece)]),
                            Err(e) => return Err(e.to_string()),
                        }
                    }
                    Err("no end of file after 400000 reads".into())
                };
                let a = drain(&mut hm);
                let b = drain(&mut hp);
                trace.push(format!("  script drain in pieces of {} -> mem {:?} / phys {:?}", piece, a.as_ref().map(|v| v.len()), b.as_ref().map(|v| v.len())));
                if a != b {
                    return Err(format!("read handle of '{}': reading to the end in pieces of {} gives {:?} bytes on MemoryFS but {:?} on PhysicalFS (or different bytes)", path, piece, a.map(|v| v.len()), b.map(|v| v.len())));
                }
            }
            ROp::Read(k, n) | ROp::ReadExact(k, n) => {
                let want = read_size(*k, *n, len as usize);
                let a = read_full(&mut hm, want);
                let b = read_full(&mut hp, want);
                trace.push(format!("  script read({}) -> mem {:?} / phys {:?}", want, a.as_ref().map(|v| v.len()), b.as_ref().map(|v| v.len())));
                match (a, b) {
                    (Ok(x), Ok(y)) => {
                        if x != y {
                            return Err(format!("read handle of '{}': read({}) returns {} bytes on MemoryFS and {} on PhysicalFS (or different bytes)", path, want, x.len(), y.len()));
                        }
                    }
                    (Err(_), Err(_)) => {}
                    (a, b) => return Err(format!("read handle of '{}': read({}) gives {:?} on MemoryFS but {:?} on PhysicalFS", path, want, a.map(|v| v.len()), b.map(|v| v.len()))),
                }
            }
        }
    }
    Ok(())
}

/// one write session (create_file or append_file handle) with the same script on both backends:
/// every call has the same outcome (seek positions included), after every flush and after the
/// drop both backends show the same tree. A cursor only steers the generated seek targets.
fn diff_write_session(m: &VfsPath, p: &VfsPath, path: &str, initial: &[u8], append: bool, script: &[WOp], uni: &[String], trace: &mut Vec<String>) -> Result<(), String> {
    use std::io::Write;
    let (pm, pp) = (at(m, path).map_err(|e| e.to_string())?, at(p, path).map_err(|e| e.to_string())?);
    let (hm, hp) = if append { (pm.append_file(), pp.append_file()) } else { (pm.create_file(), pp.create_file()) };
    let what = if append { "append_file" } else { "create_file" };
    let (mut hm, mut hp) = match (hm, hp) {
        (Ok(a), Ok(b)) => (crate::util::hold(a), crate::util::hold(b)),
        (Err(_), Err(_)) => return Ok(()),
        (a, b) => return Err(format!("{}('{}') handle: MemoryFS {} but PhysicalFS {}", what, path, if a.is_ok() { "opens" } else { "fails" }, if b.is_ok() { "opens" } else { "fails" })),
    };
    let mut steer = std::io::Cursor::new(if append { initial.to_vec() } else { vec![] });
    if append {
        steer.set_position(initial.len() as u64);
    }
    let same_trees = |when: &str| -> Result<(), String> {
        let sa = full_snapshot(m, uni);
        let sb = full_snapshot(p, uni);
        if sa.tree != sb.tree {
            return Err(format!("{} session on '{}', {}: the observable trees differ (PhysicalFS relative to MemoryFS): {:?}", what, path, when, diff_trees(&sa.tree, &sb.tree)));
        }
        Ok(())
    };
    for op in script {
        match op {
            WOp::Write(d) => {
                let bytes = make_bytes(d);
                if bytes.is_empty() {
                    continue;
                }
                let (a, b) = (hm.write_all(&bytes), hp.write_all(&bytes));
                trace.push(format!("  session write({} bytes) -> mem {:?} / phys {:?}", bytes.len(), a.as_ref().map_err(|e| e.kind()), b.as_ref().map_err(|e| e.kind())));
                if a.is_ok() != b.is_ok() {
                    return Err(format!("{} session on '{}': write of {} bytes {} on MemoryFS but {} on PhysicalFS", what, path, bytes.len(), if a.is_ok() { "succeeds" } else { "fails" }, if b.is_ok() { "succeeds" } else { "fails" }));
                }
                if append {
                    steer.set_position(steer.get_ref().len() as u64);
                }
                let _ = steer.write_all(&bytes);
            }
            WOp::Seek(w, o) => {
                // seeking an append handle is left to C14's own oracle
                if append {
                    continue;
                }
                let sf = seek_from(w, o, steer.get_ref().len() as u64, false, Some(WRITE_SEEK_BOUND));
                let before = steer.position();
                match steer.seek(sf) {
                    Ok(pos) if pos > WRITE_SEEK_BOUND => {
                        steer.set_position(before);
                        continue;
                    }
                    _ => {}
                }
                let (a, b) = (hm.seek(sf), hp.seek(sf));
                trace.push(format!("  session seek({:?}) -> mem {:?} / phys {:?}", sf, a.as_ref().map_err(|e| e.kind()), b.as_ref().map_err(|e| e.kind())));
                match (a, b) {
                    (Ok(x), Ok(y)) if x != y => return Err(format!("{} session on '{}': seek({:?}) returns {} on MemoryFS but {} on PhysicalFS", what, path, sf, x, y)),
                    (Ok(_), Err(e)) => return Err(format!("{} session on '{}': seek({:?}) succeeds on MemoryFS but fails on PhysicalFS ({})", what, path, sf, e)),
                    (Err(e), Ok(_)) => return Err(format!("{} session on '{}': seek({:?}) fails on MemoryFS ({}) but succeeds on PhysicalFS", what, path, sf, e)),
                    _ => {}
                }
            }
            WOp::Flush => {
                let (a, b) = (hm.flush(), hp.flush());
                trace.push(format!("  session flush -> mem {:?} / phys {:?}", a.as_ref().map_err(|e| e.kind()), b.as_ref().map_err(|e| e.kind())));
                if a.is_ok() != b.is_ok() {
                    return Err(format!("{} session on '{}': flush outcome differs", what, path));
                }
                same_trees("after flush with the handle still open")?;
            }
        }
    }
    drop(hm);
    drop(hp);
    same_trees("after the handle was dropped")
}

fn compare(op: &Op, shadow: &Tree, a: &Outcome, b: &Outcome) -> Result<(), String> {
    match (a, b) {
        (Outcome::Panic(m), _) => Err(format!("MemoryFS panicked: {}", m)),
        (_, Outcome::Panic(m)) => Err(format!("PhysicalFS panicked: {}", m)),
        (Outcome::Ok(x), Outcome::Ok(y)) => {
            let same = match (x, y) {
                (Val::Walk(p), Val::Walk(q)) => {
                    let mut p2 = p.clone();
                    let mut q2 = q.clone();
                    p2.sort();
                    q2.sort();
                    p2 == q2 && walk_order_ok(p).is_ok() && walk_order_ok(q).is_ok()
                }
                _ => x == y,
            };
            if same {
                Ok(())
            } else {
                Err(format!("both succeed but MemoryFS returns {} and PhysicalFS returns {}", render_val(x), render_val(y)))
            }
        }
        (Outcome::Err(x), Outcome::Err(y)) => {
            let exists_class = |c: ErrClass| matches!(c, ErrClass::FileExists | ErrClass::DirExists);
            if (exists_class(x.class) || exists_class(y.class)) && x.class != y.class {
                return Err(format!("already-exists classification differs: MemoryFS {:?}, PhysicalFS {:?}", x.class, y.class));
            }
            // not-found is compared for an entry missing from an existing directory
            let t = op.target();
            let missing_in_dir = !shadow.exists(t) && shadow.is_dir(&parent_of(t)) && !t.is_empty();
            if missing_in_dir && op.dest().is_none() && (x.class == ErrClass::NotFound) != (y.class == ErrClass::NotFound) {
                return Err(format!("not-found classification differs for a target missing from an existing directory: MemoryFS {:?}, PhysicalFS {:?}", x.class, y.class));
            }
            // ... and a call that fails on an EXISTING target must not be classified as
            // not-found by one backend only (paths below a file are left out: MemoryFS reports
            // not-found there, the OS reports ENOTDIR, and the property accepts both)
            if shadow.exists(t) && op.dest().is_none() && (x.class == ErrClass::NotFound) != (y.class == ErrClass::NotFound) {
                return Err(format!("a failing call on the existing entry '{}' is classified as not-found by one backend only: MemoryFS {:?}, PhysicalFS {:?}", t, x.class, y.class));
            }
            Ok(())
        }
        _ => Err(format!("MemoryFS: {} but PhysicalFS: {}", a.render(), b.render())),
    }
}

fn test(case: &Case, st: &mut Stats, counting: bool) -> CaseResult {
    let (pool, depth) = effective(&case.base);
    let uni = universe(&pool, depth);
    let ctx = Ctx { pool: &pool, depth, uni: &uni };
    let mut trace: Vec<String> = vec![];
    let mut facts = (0usize, 0usize, 0usize, 0usize, 0usize); // wrong-typed, overwrites/recreations, big, nonutf8, scripts
    let mut wsessions = 0usize;
    let r = guarded(|| -> Result<(), (usize, String)> {
        let mem = build(&Cfg::Mem, &vec![]).map_err(|e| (0, e))?;
        let phys = build(&Cfg::Phys, &vec![]).map_err(|e| (0, e))?;
        let mut shadow = Tree::new();
        let mut ever: std::collections::BTreeSet<String> = Default::default();
        let mut script_i = 0usize;
        let mut wscript_i = 0usize;
        for (i, raw) in case.base.ops.iter().enumerate() {
            let step = i + 1;
            let op = resolve(raw, &shadow, &ctx, Profile::Typed, false);
            if removes_root(&op) {
                continue;
            }
            if is_wrong_typed(&shadow, &op) {
                facts.0 += 1;
            }
            if let Op::CreateFile(p, b) | Op::Append(p, b) = &op {
                if matches!(op, Op::CreateFile(..)) && (shadow.exists(p) || ever.contains(p)) {
                    facts.1 += 1;
                }
                if b.len() >= 8192 {
                    facts.2 += 1;
                }
                if std::str::from_utf8(b).is_err() {
                    facts.3 += 1;
                }
            }
            if let Op::CreateDir(p) = &op {
                if ever.contains(p) {
                    facts.1 += 1;
                }
            }
            let a = exec(&mem.root, &op);
            let b = exec(&phys.root, &op);
            trace.push(format!("{} -> mem {} / phys {}", op.render(), a.class_str(), b.class_str()));
            compare(&op, &shadow, &a, &b).map_err(|m| (step, format!("{}: {}", op.render(), m)))?;
            if let Op::Read(path) = &op {
                // open_file is a call of its own: it must succeed / fail on both backends alike
                let om = at(&mem.root, path).map(|p| p.open_file().is_ok()).unwrap_or(false);
                let oph = at(&phys.root, path).map(|p| p.open_file().is_ok()).unwrap_or(false);
                if om != oph {
                    return Err((step, format!("open_file('{}') {} on MemoryFS but {} on PhysicalFS", path, if om { "succeeds" } else { "fails" }, if oph { "succeeds" } else { "fails" })));
                }
            }
            let sa = full_snapshot(&mem.root, &uni);
            let sb = full_snapshot(&phys.root, &uni);
            if !sa.problems.is_empty() || !sb.problems.is_empty() {
                return Err((step, format!("after {}: inconsistent observations: mem {:?} phys {:?}", op.render(), sa.problems.iter().take(3).collect::<Vec<_>>(), sb.problems.iter().take(3).collect::<Vec<_>>())));
            }
            if sa.tree != sb.tree {
                return Err((step, format!("after {}: the observable trees differ (PhysicalFS relative to MemoryFS): {:?}", op.render(), diff_trees(&sa.tree, &sb.tree))));
            }
            shadow = sa.tree;
            ever.extend(shadow.m.keys().cloned());
            // now and then: a read script on an existing file, on both sides
            if raw.mode2 % 4 == 0 && script_i < case.scripts.len() {
                let files = shadow.files();
                if !files.is_empty() {
                    let f = files[crate::util::idx(raw.c, files.len())].clone();
                    let len = match shadow.get(&f) {
                        Some(Node::File(b)) => b.len() as u64,
                        _ => 0,
                    };
                    trace.push(format!("read script on '{}' (len {})", f, len));
                    diff_script(&mem.root, &phys.root, &f, len, &case.scripts[script_i], &mut trace).map_err(|m| (step, m))?;
                    script_i += 1;
                    facts.4 += 1;
                }
            }
            // ... and a write session (create or append handle, several writes / seeks / flushes)
            if raw.mode2 % 4 == 1 && wscript_i < case.wscripts.len() {
                let files = shadow.files();
                if !files.is_empty() {
                    let f = files[crate::util::idx(raw.c, files.len())].clone();
                    let initial = match shadow.get(&f) {
                        Some(Node::File(b)) => b.to_vec(),
                        _ => vec![],
                    };
                    let append = raw.mode % 2 == 0;
                    trace.push(format!("{} session on '{}' (len {})", if append { "append_file" } else { "create_file" }, f, initial.len()));
                    diff_write_session(&mem.root, &phys.root, &f, &initial, append, &case.wscripts[wscript_i], &uni, &mut trace).map_err(|m| (step, m))?;
                    wscript_i += 1;
                    wsessions += 1;
                    shadow = full_snapshot(&mem.root, &uni).tree;
                    ever.extend(shadow.m.keys().cloned());
                }
            }
        }
        Ok(())
    });
    let mk = |step: usize, msg: String| Failure {
        message: format!("step {}: {}\n  trace:\n    {}", step, msg, trace.join("\n    ")),
        replay: json!({"kind": "c02", "case": case.base.to_json(), "scripts": case.scripts.iter().map(|s| rops_to_json(s)).collect::<Vec<_>>(), "wscripts": case.wscripts.iter().map(|s| wops_to_json(s)).collect::<Vec<_>>(), "failing_step": step}),
    };
    match r {
        Err(p) => Err(mk(0, format!("PANIC: {}", p))),
        Ok(Err((step, m))) => Err(mk(step, m)),
        Ok(Ok(())) => {
            if counting {
                let nt = (facts.0 >= 1 || facts.1 >= 1) && (facts.2 >= 1 || facts.3 >= 1);
                st.label_n("ops_executed", trace.len() as u64);
                st.label_n("wrong_typed_calls", facts.0 as u64);
                st.label_n("overwrites_or_recreations", facts.1 as u64);
                st.label_n("contents>=8KiB", facts.2 as u64);
                st.label_n("contents_non_utf8", facts.3 as u64);
                st.label_n("read_scripts", facts.4 as u64);
                st.label_n("write_sessions", wsessions as u64);
                for c in pool_class(&pool) {
                    st.label(&format!("pool:{}", c));
                }
                if nt {
                    st.nontrivial.insert(crate::util::fnv(serde_json::to_string(&case.base.to_json()).unwrap().as_bytes()));
                }
                st.sample(json!({"history": trace.iter().take(14).collect::<Vec<_>>()}), nt);
            }
            Ok(())
        }
    }
}

pub fn replay(v: &Value) -> CaseResult {
    let base = HistCase::from_json(v.get("case").unwrap_or(&Value::Null)).ok_or_else(|| Failure { message: "unparsable C02 replay".into(), replay: v.clone() })?;
    let scripts = v.get("scripts").and_then(|s| s.as_array()).map(|a| a.iter().map(rops_from_json).collect()).unwrap_or_default();
    let mut st = Stats::default();
    let wscripts = v.get("wscripts").and_then(|s| s.as_array()).map(|a| a.iter().map(wops_from_json).collect()).unwrap_or_default();
    test(&Case { base, scripts, wscripts }, &mut st, false)
}

const RULE: &str = "typed C01 histories vec(op,0..=40) (wrong-typed calls, overwrites, re-creations, contents up to 70 KiB incl. non-UTF-8, names accepted by the host up to 255 bytes) executed in lock-step on an empty MemoryFS and an empty PhysicalFS, selectors resolved against the memory side's observed tree; per call: same Ok/Err, equal values, same already-exists class, same not-found class for a target missing from an existing directory; after every call identical full snapshots (types, names, bytes, lengths, universe probes); read scripts with seeks past EOF run on both read handles and compared call by call; write sessions (create_file or append_file handle on an existing file; writes, seeks incl. past the end, flushes) run on both write handles: same outcome and seek position per call, identical trees after every flush with the handle still open and after the drop; the model only steers generation; non-trivial = history with a wrong-typed call or an overwrite/re-creation and a content >= 8 KiB or non-UTF-8";

pub fn run(ctx: &RunCtx) -> i32 {
    let reg = crate::regress::run_for(&ctx.id, &replay);
    if let Some((path, msg)) = &reg.violation {
        println!("--- regression input fails ---\n{}", msg);
        println!("VIOLATION property={} replay={}", ctx.id, path);
        return 1;
    }
    let (stats, failure) = run_sharded(ctx, "lockstep", ctx.tier.pick(5000, 200_000), strategy, test);
    write_evidence(ctx, "exploration", RULE, &stats, json!({"regress_replayed": reg.replayed}), &["Linux, scratch filesystem tmpfs/ext4", "timestamps, message texts and other I/O error kinds are excluded by the property", "no seeks on append handles (O_APPEND differs by design)"], failure.is_some() as u32);
    finish(ctx, &stats, &failure, &[("distinct_nontrivial", 100), ("wrong_typed_calls", 200), ("read_scripts", 50), ("write_sessions", 50)])
}
