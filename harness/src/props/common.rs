//! Shared driver for the history-based properties.

use crate::config::Cfg;
use crate::engine::*;
use crate::hist::*;
use proptest::prelude::*;
use serde_json::Value;

pub struct HistProp {
    pub opts: HistOpts,
    pub cfgs: fn() -> BoxedStrategy<Cfg>,
    pub max_ops: usize,
    pub max_prepop: usize,
    pub cases_quick: u32,
    pub cases_thorough: u32,
    pub nontrivial: fn(&Summary, &HistCase) -> bool,
    pub rule: &'static str,
    pub floors: Vec<(&'static str, u64)>,
    pub assumptions: Vec<&'static str>,
    pub exclude: Box<Excluder>,
    /// extra per-case labels
    pub labeler: fn(&Summary, &HistCase, &mut Stats),
}

pub fn no_labels(_: &Summary, _: &HistCase, _: &mut Stats) {}

impl HistProp {
    pub fn test(&self, case: &HistCase, st: &mut Stats, counting: bool) -> CaseResult {
        let r = run_hist(case, &self.opts, &*self.exclude, st)?;
        if counting {
            let nt = (self.nontrivial)(&r.summary, case);
            (self.labeler)(&r.summary, case, st);
            if case.cfg.contains_emb() {
                st.label("stack_with_embedded_lower_layer");
            }
            if r.summary.twin_views > 0 {
                st.label_n("second_overlay_instance_views_compared", r.summary.twin_views as u64);
            }
            if r.summary.shadowed_file_dirs > 0 {
                st.label("layers_with_directory_over_shadowed_file");
            }
            if nt {
                let h = crate::util::fnv(serde_json::to_string(&case.to_json()).unwrap().as_bytes());
                st.nontrivial.insert(h);
                st.label("nontrivial_cases");
            }
            st.label_n("ops_executed", r.summary.executed as u64);
            st.label_n("states_observed", r.summary.states_observed as u64);
            st.label_n("resyncs_after_failed_composite", r.summary.resyncs as u64);
            st.sample(sample_json(case, &self.opts, &r.trace), nt);
        }
        Ok(())
    }

    pub fn run(&self, ctx: &RunCtx) -> i32 {
        self.run_with(ctx, None)
    }

    /// `extra`: a further generated part of the same property, run after the histories
    pub fn run_with(&self, ctx: &RunCtx, extra: Option<&dyn Fn(&RunCtx) -> (Stats, Option<Failure>)>) -> i32 {
        // strict replay tier first
        let reg = crate::regress::run_for(&ctx.id, &|v| self.replay_strict(v));
        if let Some((path, msg)) = &reg.violation {
            println!("--- regression input fails ---\n{}", msg);
            println!("VIOLATION property={} replay={}", ctx.id, path);
            let mut st = Stats::default();
            st.evaluations = reg.replayed as u64;
            write_evidence(ctx, "exploration", self.rule, &st, serde_json::json!({"regress_replayed": reg.replayed, "note": "a committed regression input failed; generated search not run"}), &self.assumptions, 1);
            return 1;
        }
        let cases = ctx.tier.pick(self.cases_quick, self.cases_thorough);
        let (mut stats, mut failure) = run_sharded(
            ctx,
            "hist",
            cases,
            || hist_strategy((self.cfgs)(), self.max_ops, self.max_prepop),
            |case, st, counting| self.test(case, st, counting),
        );
        if let (None, Some(extra)) = (&failure, extra) {
            let (s2, f2) = extra(ctx);
            stats.merge(s2);
            failure = f2;
        }
        let violations = if failure.is_some() { 1 } else { 0 };
        write_evidence(
            ctx,
            "exploration",
            self.rule,
            &stats,
            serde_json::json!({"regress_replayed": reg.replayed, "known_findings_confirmed": reg.known_confirmed}),
            &self.assumptions,
            violations,
        );
        finish(ctx, &stats, &failure, &self.floors)
    }

    /// strict replay: no known-finding exclusions
    pub fn replay_strict(&self, v: &Value) -> CaseResult {
        if v.get("kind").and_then(|k| k.as_str()) == Some("scripts") {
            // a bundle: every scenario on every listed stack
            let cfgs = v.get("cfgs").and_then(|c| c.as_array()).cloned().unwrap_or_default();
            for sc in v.get("scenarios").and_then(|c| c.as_array()).cloned().unwrap_or_default() {
                for cfg in &cfgs {
                    let one = serde_json::json!({"kind": "script", "cfg": cfg, "ops": sc.get("ops").cloned().unwrap_or(Value::Null), "scenario": sc.get("name").cloned().unwrap_or(Value::Null)});
                    run_script(&one, &self.opts, &*no_exclusions()).map_err(|mut f| {
                        f.message = format!("scenario {} on {}: {}", sc.get("name").and_then(|n| n.as_str()).unwrap_or("?"), cfg, f.message);
                        f
                    })?;
                }
            }
            return Ok(());
        }
        if v.get("kind").and_then(|k| k.as_str()) == Some("script") {
            return run_script(v, &self.opts, &*no_exclusions());
        }
        self.replay(v)
    }

    pub fn replay(&self, v: &Value) -> CaseResult {
        if v.get("kind").and_then(|k| k.as_str()) == Some("script") {
            return run_script(v, &self.opts, &*self.exclude);
        }
        let case = HistCase::from_json(v.get("case").unwrap_or(&Value::Null)).ok_or_else(|| Failure {
            message: "replay file has no parsable 'case'".into(),
            replay: v.clone(),
        })?;
        let mut st = Stats::default();
        self.test(&case, &mut st, false)
    }
}
