//! C09 — overlay = upper-shadows-lower union, then an ordinary tree.

use super::common::*;
use crate::gen::{overlay_cfg_strategy, Profile};
use crate::hist::*;

pub fn prop() -> HistProp {
    let mut opts = HistOpts::new(Profile::Typed);
    // timestamp setters are part of the histories: they must not disturb the tree or later calls
    opts.with_time = true;
    opts.twin = true;
    opts.contract = true;
    HistProp {
        opts,
        cfgs: || crate::gen::with_emb(overlay_cfg_strategy(1, 2)),
        max_ops: 35,
        max_prepop: 14,
        cases_quick: 2500,
        cases_thorough: 120_000,
        nontrivial: |s, _| s.lower_only_ops >= 1 && s.multi_layer_ops >= 1,
        rule: "overlays of 1..4 layers (Mem/Phys/nested stacks) with generated contents (same path in several layers with equal or different bytes, directories split across layers, empty layers, a directory above a same-named file of a deeper layer; one stack in thirteen has the read-only embedded fixture as lowest layers); timestamp setters in the histories; a second OverlayFS instance over the same layers (one built before the history, one after every step) must show the same tree; the initial view must equal the union (first layer wins for files, directories merge) and typed C01 histories vec(op,0..=35) must follow the C01 contract relative to it; non-trivial = >=1 op on an entry existing only in a lower layer and >=1 op on a path present in two layers",
        floors: vec![("distinct_nontrivial", 50), ("lower_only_mutations", 100)],
        assumptions: vec!["statically type-conflicting layers (file in one, directory in another) are not generated: the documentation defines the union only for consistent layers"],
        exclude: crate::findings::hist_excluder("C09"),
        labeler: |s, _, st| {
            st.label_n("lower_only_ops", s.lower_only_ops as u64);
            st.label_n("lower_only_mutations", s.lower_only_mutations as u64);
            st.label_n("multi_layer_ops", s.multi_layer_ops as u64);
        },
    }
}
