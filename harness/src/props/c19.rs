//! C19 — timestamps round-trip and are independent of content.

use crate::config::*;
use crate::engine::*;
use crate::exec::{at, classify, time_of};
use crate::gen::*;
use crate::model::{ErrClass, Node, TimeField};
use crate::util::{guarded, idx};
use proptest::prelude::*;
use serde_json::{json, Value};
use std::io::{Read, Write};
use std::sync::OnceLock;
use std::time::SystemTime;
use vfs::{VfsFileType, VfsMetadata, VfsPath};

#[derive(Clone, Debug)]
pub enum TOp {
    Set(u8, u8, u16, u32),
    Write(u8, DataSpec),
    Append(u8, DataSpec),
    /// open a write handle, write, set a timestamp while the handle is open, flush, drop
    SetDuring(u8, u8, u16, DataSpec),
    /// a call on the entry that fails by contract (wrong-typed / already exists) or succeeds
    /// without having anything to do (create_dir_all on an existing directory): all three
    /// timestamps, length and type must be what they were
    Idle(u8, u8),
    /// open a read handle, read a few bytes, set a timestamp, drop the handle: closing a reader is
    /// not a change of the entry
    SetWhileReading(u8, u8, u16, u8),
}

#[derive(Clone, Debug)]
pub struct Case {
    pub cfg: Cfg,
    pub ops: Vec<TOp>,
    /// additionally place an entry only in a lower layer (observation only)
    pub lower_probe: bool,
    /// overlay stacks: the two directories also exist in the lowest layer (the overlay serves the
    /// upper one), and the file /f0 exists there with other bytes
    pub both: bool,
}

/// (the last one is the filesystem's own root directory)
const ENTRIES: [(&str, bool); 5] = [("/f0", false), ("/d0/f1", false), ("/d0", true), ("/d0/d1", true), ("", true)];

/// candidate seconds (relative to the epoch); filtered at start-up to what the scratch
/// filesystem round-trips natively
const SECS: [i64; 14] = [0, 1, -1, 2, 1_000_000_000, 2_000_000_000, -1_000_000_000, -2_000_000_000, 4_000_000_000, 10_000_000_000, 15_000_000_000, -2_147_483_649, 2_147_483_648, 1_700_000_000];
const NANOS: [u32; 6] = [0, 1, 999_999_999, 500_000_000, 123_456_789, 1000];

static USABLE: OnceLock<Vec<(i64, u32)>> = OnceLock::new();

/// Calibrate with raw OS calls (not through vfs) which values the scratch filesystem stores exactly.
fn usable_times() -> &'static Vec<(i64, u32)> {
    USABLE.get_or_init(|| {
        let s = crate::util::Scratch::new("calib");
        let f = s.dir.join("probe");
        std::fs::write(&f, b"x").unwrap();
        let mut ok = vec![];
        for secs in SECS {
            for nanos in NANOS {
                if secs < -2_000_000_000 && nanos != 0 && false {
                    continue;
                }
                let t = time_of(secs, nanos);
                let ft = filetime::FileTime::from_system_time(t);
                if filetime::set_file_mtime(&f, ft).is_err() || filetime::set_file_atime(&f, ft).is_err() {
                    continue;
                }
                match std::fs::metadata(&f) {
                    Ok(m) => {
                        if m.modified().ok() == Some(t) && m.accessed().ok() == Some(t) {
                            ok.push((secs, nanos));
                        }
                    }
                    Err(_) => {}
                }
            }
        }
        ok
    })
}

fn top_strategy() -> impl Strategy<Value = TOp> {
    prop_oneof![
        6 => (any::<u8>(), any::<u8>(), any::<u16>(), any::<u32>()).prop_map(|(e, f, t, n)| TOp::Set(e, f, t, n)),
        2 => (any::<u8>(), data_strategy()).prop_map(|(e, d)| TOp::Write(e, d)),
        2 => (any::<u8>(), data_strategy()).prop_map(|(e, d)| TOp::Append(e, d)),
        2 => (any::<u8>(), any::<u8>(), any::<u16>(), data_strategy()).prop_map(|(e, f, t, d)| TOp::SetDuring(e, f, t, d)),
        3 => (any::<u8>(), any::<u8>()).prop_map(|(e, k)| TOp::Idle(e, k)),
        2 => (any::<u8>(), any::<u8>(), any::<u16>(), any::<u8>()).prop_map(|(e, f, t, n)| TOp::SetWhileReading(e, f, t, n)),
    ]
}

fn strategy() -> impl Strategy<Value = Case> {
    (cfg_strategy(2), proptest::collection::vec(top_strategy(), 1..16), any::<bool>(), any::<bool>()).prop_map(|(cfg, ops, lower_probe, both)| Case { cfg, ops, lower_probe, both })
}

fn base_leaf(c: &Cfg) -> &'static str {
    match c {
        Cfg::Mem => "mem",
        Cfg::Phys => "phys",
        Cfg::Emb => "emb",
        Cfg::Alt(i, _) => base_leaf(i),
        Cfg::Ovl(ls) => base_leaf(&ls[0]),
        Cfg::OvlSub(i, _) => base_leaf(i),
    }
}

#[derive(Clone, Debug, PartialEq)]
struct M {
    is_dir: bool,
    len: u64,
    created: Option<SystemTime>,
    modified: Option<SystemTime>,
    accessed: Option<SystemTime>,
}

fn m_of(md: &VfsMetadata) -> M {
    M { is_dir: md.file_type == VfsFileType::Directory, len: md.len, created: md.created, modified: md.modified, accessed: md.accessed }
}

fn field_of(m: &M, f: TimeField) -> Option<SystemTime> {
    match f {
        TimeField::Created => m.created,
        TimeField::Modified => m.modified,
        TimeField::Accessed => m.accessed,
    }
}

fn read_bytes(p: &VfsPath) -> Result<Vec<u8>, String> {
    let mut v = vec![];
    p.open_file().map_err(|e| e.to_string())?.read_to_end(&mut v).map_err(|e| e.to_string())?;
    Ok(v)
}

fn test(case: &Case, st: &mut Stats, counting: bool) -> CaseResult {
    let times = usable_times();
    let mut trace: Vec<String> = vec![];
    let mut facts = (0usize, 0usize, false, 0usize, 0usize, 0usize); // sets ok, not-supported, subsec, fields-with-session-between cases, lower-only observations
    let mut idle_total = 0usize;
    let mut extreme_total = 0usize;
    let mut reader_total = 0usize;
    let mut reader_set_total = 0usize;
    let r = guarded(|| -> Result<(), (usize, String)> {
        let e0 = |m: String| (0usize, m);
        let n = case.cfg.overlay_layers();
        let mut prepop: Prepop = vec![];
        if case.lower_probe && n >= 2 {
            prepop.push((n - 1, "/low".to_string(), Node::File(std::sync::Arc::new(b"lower".to_vec()))));
            prepop.push((n - 1, "/lowd".to_string(), Node::Dir));
            prepop.push((n - 1, "/lowd/in".to_string(), Node::File(std::sync::Arc::new(b"inner".to_vec()))));
        }
        let both = case.both && n >= 2;
        if both {
            for l in [0, n - 1] {
                prepop.push((l, "/d0".to_string(), Node::Dir));
                prepop.push((l, "/d0/d1".to_string(), Node::Dir));
            }
            prepop.push((n - 1, "/d0/lowchild".to_string(), Node::File(std::sync::Arc::new(b"c".to_vec()))));
            prepop.push((n - 1, "/f0".to_string(), Node::File(std::sync::Arc::new(b"lower bytes".to_vec()))));
        }
        let built = build(&case.cfg, &prepop).map_err(e0)?;
        let root = built.root.clone();
        // entries are created through the stack itself (so they live in the upper layer)
        at(&root, "/d0/d1").map_err(|e| e0(e.to_string()))?.create_dir_all().map_err(|e| e0(e.to_string()))?;
        for (p, is_dir) in ENTRIES {
            if !is_dir {
                at(&root, p).map_err(|e| e0(e.to_string()))?.create_file().map_err(|e| e0(e.to_string()))?.write_all(b"seed").map_err(|e| e0(e.to_string()))?;
            }
        }
        let base = base_leaf(&case.cfg);
        let mut fields_set: std::collections::BTreeMap<&str, Vec<(TimeField, usize)>> = Default::default();
        let mut sessions_at: std::collections::BTreeMap<&str, Vec<usize>> = Default::default();
        let mut st_during = 0usize;
        let mut st_idle = 0usize;
        let mut st_reader = 0usize;
        let mut st_reader_set = 0usize;
        for (i, op) in case.ops.iter().enumerate() {
            let step = i + 1;
            match op {
                TOp::Set(e, f, t, jn) => {
                    let (path, _) = ENTRIES[idx((*e as u16) << 8, ENTRIES.len())];
                    let field = match f % 3 {
                        0 => TimeField::Created,
                        1 => TimeField::Modified,
                        _ => TimeField::Accessed,
                    };
                    let (mut secs, mut nanos) = times[idx(*t, times.len())];
                    if t % 5 == 0 && secs > 0 && secs < 4_000_000_000 {
                        nanos = jn % 1_000_000_000;
                    }
                    // the in-memory backend stores a SystemTime as it is: also the ends of the range
                    if base == "mem" && t % 13 == 6 {
                        secs = [i64::MAX, i64::MAX - 1, i64::MIN + 1, 253_402_300_800][(*jn % 4) as usize];
                        nanos = [0, 999_999_999][(*jn / 4 % 2) as usize];
                        extreme_total += 1;
                    }
                    let when = time_of(secs, nanos);
                    let p = at(&root, path).map_err(|e| (step, e.to_string()))?;
                    let bytes_before = if ENTRIES.iter().any(|(q, d)| *q == path && !*d) { Some(read_bytes(&p).map_err(|m| (step, m))?) } else { None };
                    let before = m_of(&p.metadata().map_err(|e| (step, format!("metadata('{}') failed: {}", path, e)))?);
                    let res = match field {
                        TimeField::Created => p.set_creation_time(when),
                        TimeField::Modified => p.set_modification_time(when),
                        TimeField::Accessed => p.set_access_time(when),
                    };
                    let after = m_of(&p.metadata().map_err(|e| (step, format!("metadata('{}') failed after the setter: {}", path, e)))?);
                    trace.push(format!("set {:?} of '{}' to {}s+{}ns -> {}", field, path, secs, nanos, match &res { Ok(()) => "Ok".to_string(), Err(e) => format!("Err({:?})", classify(e.kind())) }));
                    match &res {
                        Ok(()) => {
                            if field_of(&after, field) != Some(when) {
                                return Err((step, format!("set {:?} of '{}' returned Ok but metadata reports {:?} instead of {:?}", field, path, field_of(&after, field), when)));
                            }
                            let mut expect = before.clone();
                            match field {
                                TimeField::Created => expect.created = Some(when),
                                TimeField::Modified => expect.modified = Some(when),
                                TimeField::Accessed => expect.accessed = Some(when),
                            }
                            if after != expect {
                                return Err((step, format!("set {:?} of '{}' changed something else: before {:?} after {:?}", field, path, before, after)));
                            }
                            facts.0 += 1;
                            if nanos != 0 {
                                facts.2 = true;
                            }
                            fields_set.entry(path).or_default().push((field, step));
                        }
                        Err(e) => {
                            if after != before {
                                return Err((step, format!("set {:?} of '{}' failed ({:?}) but metadata changed: before {:?} after {:?}", field, path, classify(e.kind()), before, after)));
                            }
                            let supported = base == "mem" || field != TimeField::Created;
                            if supported {
                                return Err((step, format!("set {:?} of '{}' is supported by the {} backend but failed: {}", field, path, base, e)));
                            }
                            if classify(e.kind()) != ErrClass::NotSupported {
                                return Err((step, format!("unsupported setter {:?} on the {} backend must report NotSupported, got {}", field, base, e)));
                            }
                            facts.1 += 1;
                        }
                    }
                    if res.is_ok() && !(base == "mem" || field != TimeField::Created) {
                        return Err((step, format!("set {:?} claims success on the {} backend, which cannot store it", field, base)));
                    }
                    if let Some(b) = bytes_before {
                        let now = read_bytes(&p).map_err(|m| (step, m))?;
                        if now != b {
                            return Err((step, format!("set {:?} of '{}' changed the file's bytes", field, path)));
                        }
                    }
                    // adapters report the timestamps of the entry they serve
                    let served = m_of(&p.metadata().map_err(|e| (step, e.to_string()))?);
                    if let Some((under, prefix)) = &built.alt_under {
                        let u = at(under, &format!("{}{}", prefix, path)).map_err(|e| (step, e.to_string()))?;
                        let um = m_of(&u.metadata().map_err(|e| (step, format!("underlying metadata: {}", e)))?);
                        if (um.created, um.modified) != (served.created, served.modified) {
                            return Err((step, format!("altroot reports timestamps {:?} for '{}' but the underlying entry has {:?}", (served.created, served.modified), path, (um.created, um.modified))));
                        }
                    } else if !built.layers.is_empty() {
                        for l in &built.layers {
                            let lp = at(l, path).map_err(|e| (step, e.to_string()))?;
                            if lp.exists().unwrap_or(false) {
                                let lm = m_of(&lp.metadata().map_err(|e| (step, e.to_string()))?);
                                if (lm.created, lm.modified) != (served.created, served.modified) {
                                    return Err((step, format!("overlay reports timestamps {:?} for '{}' but the first layer that has it reports {:?}", (served.created, served.modified), path, (lm.created, lm.modified))));
                                }
                                break;
                            }
                        }
                    }
                }
                TOp::Idle(e, k) => {
                    let (path, is_dir) = ENTRIES[idx((*e as u16) << 8, ENTRIES.len())];
                    let p = at(&root, path).map_err(|e| (step, e.to_string()))?;
                    let before = m_of(&p.metadata().map_err(|e| (step, format!("metadata('{}') failed: {}", path, e)))?);
                    let (name, ok): (&str, bool) = match (is_dir, k % 4) {
                        (true, 0) => ("create_dir", p.create_dir().is_ok()),
                        (true, 1) => ("create_dir_all", p.create_dir_all().is_ok()),
                        (true, 2) => ("create_file", p.create_file().is_ok()),
                        (true, _) => ("append_file", p.append_file().is_ok()),
                        (false, 0) => ("create_dir", p.create_dir().is_ok()),
                        (false, 1) => ("read_dir", p.read_dir().is_ok()),
                        (false, 2) => ("remove_dir", p.remove_dir().is_ok()),
                        (false, _) => ("create_dir_all", p.create_dir_all().is_ok()),
                    };
                    let expect_ok = is_dir && k % 4 == 1;
                    trace.push(format!("{}('{}') on the existing {} -> {}", name, path, if is_dir { "directory" } else { "file" }, if ok { "Ok" } else { "Err" }));
                    // (whether the call's own outcome is right is C01's business; here only calls
                    // that behaved as the contract says are judged)
                    if ok == expect_ok {
                        let after = m_of(&p.metadata().map_err(|e| (step, format!("metadata('{}') failed after {}: {}", path, name, e)))?);
                        if after != before {
                            return Err((step, format!("{}('{}') {} but the entry's metadata changed: before {:?} after {:?}", name, path, if ok { "had nothing to do" } else { "failed" }, before, after)));
                        }
                        st_idle += 1;
                    }
                }
                TOp::SetDuring(e, f, t, d) => {
                    // publishing content (flush / drop) must not touch created / accessed
                    let files: Vec<&str> = ENTRIES.iter().filter(|(_, d)| !*d).map(|(p, _)| *p).collect();
                    let path = files[idx((*e as u16) << 8, files.len())];
                    let p = at(&root, path).map_err(|e| (step, e.to_string()))?;
                    let field = if f % 2 == 0 && base == "mem" { TimeField::Created } else { TimeField::Accessed };
                    let (secs, nanos) = times[idx(*t, times.len())];
                    let when = time_of(secs, nanos);
                    let append = f % 4 < 2;
                    let mut h = crate::util::hold(if append { p.append_file() } else { p.create_file() }.map_err(|e| (step, e.to_string()))?);
                    h.write_all(&make_bytes(d)).map_err(|e| (step, e.to_string()))?;
                    let r = match field {
                        TimeField::Created => p.set_creation_time(when),
                        _ => p.set_access_time(when),
                    };
                    trace.push(format!("{} handle open on '{}': set {:?} to {}s+{}ns -> {:?}, then flush, drop", if append { "append" } else { "create" }, path, field, secs, nanos, r.as_ref().map_err(|e| classify(e.kind()))));
                    r.map_err(|e| (step, format!("set {:?} of '{}' (supported) failed while a write handle is open: {}", field, path, e)))?;
                    h.write_all(b"tail").map_err(|e| (step, e.to_string()))?;
                    h.flush().map_err(|e| (step, e.to_string()))?;
                    let mid = m_of(&p.metadata().map_err(|e| (step, e.to_string()))?);
                    if field_of(&mid, field) != Some(when) {
                        return Err((step, format!("{:?} of '{}' was set to {:?} but after flushing the open handle metadata reports {:?}", field, path, when, field_of(&mid, field))));
                    }
                    drop(h);
                    let end = m_of(&p.metadata().map_err(|e| (step, e.to_string()))?);
                    if field_of(&end, field) != Some(when) {
                        return Err((step, format!("{:?} of '{}' was set to {:?} but after dropping the write handle metadata reports {:?}", field, path, when, field_of(&end, field))));
                    }
                    sessions_at.entry(path).or_default().push(step);
                    st_during += 1;
                }
                TOp::SetWhileReading(e, f, t, nread) => {
                    let files: Vec<&str> = ENTRIES.iter().filter(|(_, d)| !*d).map(|(p, _)| *p).collect();
                    let path = files[idx((*e as u16) << 8, files.len())];
                    let p = at(&root, path).map_err(|e| (step, e.to_string()))?;
                    let field = match f % 3 {
                        0 if base == "mem" => TimeField::Created,
                        1 => TimeField::Modified,
                        _ => TimeField::Accessed,
                    };
                    let (secs, nanos) = times[idx(*t, times.len())];
                    let when = time_of(secs, nanos);
                    let mut h = p.open_file().map_err(|e| (step, e.to_string()))?;
                    let mut buf = vec![0u8; (*nread % 17) as usize];
                    let got = h.read(&mut buf).map_err(|e| (step, e.to_string()))?;
                    let before = m_of(&p.metadata().map_err(|e| (step, e.to_string()))?);
                    let r = match field {
                        TimeField::Created => p.set_creation_time(when),
                        TimeField::Modified => p.set_modification_time(when),
                        TimeField::Accessed => p.set_access_time(when),
                    };
                    trace.push(format!("read handle open on '{}' ({} bytes read): set {:?} to {}s+{}ns -> {:?}, then drop the handle", path, got, field, secs, nanos, r.as_ref().map_err(|e| classify(e.kind()))));
                    r.map_err(|e| (step, format!("set {:?} of '{}' (supported) failed while a read handle is open: {}", field, path, e)))?;
                    let mut expect = before.clone();
                    match field {
                        TimeField::Created => expect.created = Some(when),
                        TimeField::Modified => expect.modified = Some(when),
                        TimeField::Accessed => expect.accessed = Some(when),
                    }
                    let mid = m_of(&p.metadata().map_err(|e| (step, e.to_string()))?);
                    if mid != expect {
                        return Err((step, format!("set {:?} of '{}' while a read handle is open: metadata went from {:?} to {:?}", field, path, before, mid)));
                    }
                    drop(h);
                    let end = m_of(&p.metadata().map_err(|e| (step, e.to_string()))?);
                    if end != expect {
                        return Err((step, format!("{:?} of '{}' was set to {:?} while a read handle was open; dropping that handle changed the metadata from {:?} to {:?}", field, path, when, mid, end)));
                    }
                    fields_set.entry(path).or_default().push((field, step));
                    st_reader_set += 1;
                }
                TOp::Write(e, d) | TOp::Append(e, d) => {
                    let files: Vec<&str> = ENTRIES.iter().filter(|(_, d)| !*d).map(|(p, _)| *p).collect();
                    let path = files[idx((*e as u16) << 8, files.len())];
                    let p = at(&root, path).map_err(|e| (step, e.to_string()))?;
                    // in a quarter of the sessions a read handle on the same file is alive meanwhile
                    let reader = if e & 0xC0 == 0xC0 { p.open_file().ok() } else { None };
                    let before = m_of(&p.metadata().map_err(|e| (step, e.to_string()))?);
                    let is_append = matches!(op, TOp::Append(..));
                    {
                        let mut h = crate::util::hold(if is_append { p.append_file() } else { p.create_file() }.map_err(|e| (step, e.to_string()))?);
                        h.write_all(&make_bytes(d)).map_err(|e| (step, e.to_string()))?;
                    }
                    let after = m_of(&p.metadata().map_err(|e| (step, e.to_string()))?);
                    trace.push(format!("{} session on '{}'{}", if is_append { "append" } else { "create" }, path, if reader.is_some() { " while a read handle on it is open" } else { "" }));
                    if reader.is_some() {
                        st_reader += 1;
                    }
                    drop(reader);
                    if is_append && base == "mem" && after.created != before.created {
                        return Err((step, format!("appending to '{}' changed its creation time from {:?} to {:?}", path, before.created, after.created)));
                    }
                    sessions_at.entry(path).or_default().push(step);
                }
            }
        }
        // entries that exist only in a lower layer: the property does not oblige the overlay to
        // support setters there (the unchanged tree answers FileNotFound), but whatever it answers,
        // Ok must mean "exact value, nothing else touched" and Err must mean "nothing changed"
        if case.lower_probe && n >= 2 {
            for (path, k) in [("/low", 0usize), ("/lowd", 1), ("/low", 2), ("/lowd/in", 0)] {
                let p = at(&root, path).map_err(|e| (0usize, e.to_string()))?;
                let field = [TimeField::Modified, TimeField::Accessed, TimeField::Created][(k + case.ops.len()) % 3];
                let (secs, nanos) = times[(k * 7 + case.ops.len()) % times.len()];
                let when = time_of(secs, nanos);
                let before = m_of(&p.metadata().map_err(|e| (0usize, format!("metadata('{}'): {}", path, e)))?);
                let r = match field {
                    TimeField::Created => p.set_creation_time(when),
                    TimeField::Modified => p.set_modification_time(when),
                    TimeField::Accessed => p.set_access_time(when),
                };
                let after = m_of(&p.metadata().map_err(|e| (0usize, format!("metadata('{}') after the setter: {}", path, e)))?);
                facts.4 += 1;
                trace.push(format!("set {:?} on lower-only '{}' -> {}", field, path, match &r { Ok(()) => "Ok".to_string(), Err(e) => format!("{:?}", classify(e.kind())) }));
                match r {
                    Ok(()) => {
                        let mut expect = before.clone();
                        match field {
                            TimeField::Created => expect.created = Some(when),
                            TimeField::Modified => expect.modified = Some(when),
                            TimeField::Accessed => expect.accessed = Some(when),
                        }
                        if after != expect {
                            return Err((0, format!("set {:?} on the lower-only entry '{}' returned Ok but metadata went from {:?} to {:?}", field, path, before, after)));
                        }
                    }
                    Err(e) => {
                        if after != before {
                            return Err((0, format!("set {:?} on the lower-only entry '{}' failed ({:?}) but metadata changed from {:?} to {:?}", field, path, classify(e.kind()), before, after)));
                        }
                    }
                }
            }
        }
        facts.5 = st_during;
        idle_total = st_idle;
        reader_total = st_reader;
        reader_set_total = st_reader_set;
        for (p, sets) in &fields_set {
            let kinds: std::collections::BTreeSet<TimeField> = sets.iter().map(|(f, _)| *f).collect();
            if kinds.len() >= 2 {
                if let Some(ss) = sessions_at.get(p) {
                    let lo = sets.iter().map(|(_, s)| *s).min().unwrap();
                    let hi = sets.iter().map(|(_, s)| *s).max().unwrap();
                    if ss.iter().any(|s| *s > lo && *s < hi) {
                        facts.3 += 1;
                    }
                }
            }
        }
        Ok(())
    });
    let mk = |step: usize, msg: String| Failure {
        message: format!("stack {} | step {}: {}\n  trace:\n    {}", case.cfg.render(), step, msg, trace.join("\n    ")),
        replay: json!({"kind": "c19", "cfg": case.cfg.to_json(), "lower_probe": case.lower_probe, "both": case.both, "ops": ops_to_json(&case.ops)}),
    };
    match r {
        Err(p) => Err(mk(0, format!("PANIC: {}", p))),
        Ok(Err((step, m))) => Err(mk(step, m)),
        Ok(Ok(())) => {
            if counting {
                let nt = facts.3 >= 1 && facts.2;
                st.label(&format!("cfg:{}", case.cfg.top()));
                st.label(&format!("base:{}", base_leaf(&case.cfg)));
                st.label_n("setters_ok_verified", facts.0 as u64);
                st.label_n("setters_not_supported_verified", facts.1 as u64);
                st.label_n("lower_only_setters_checked", facts.4 as u64);
                st.label_n("setters_during_open_handle_verified", facts.5 as u64);
                st.label_n("failing_or_idle_calls_verified", idle_total as u64);
                st.label_n("setters_with_range_end_values(memory)", extreme_total as u64);
                st.label_n("write_sessions_with_live_reader", reader_total as u64);
                st.label_n("setters_while_a_read_handle_is_open_verified", reader_set_total as u64);
                if case.both && case.cfg.overlay_layers() >= 2 {
                    st.label("directories_present_in_upper_and_lowest_layer");
                }
                if nt {
                    st.nontrivial.insert(crate::util::fnv_str(&format!("{:?}", case)));
                }
                st.sample(json!({"stack": case.cfg.render(), "history": trace.iter().take(12).collect::<Vec<_>>()}), nt);
            }
            Ok(())
        }
    }
}

fn ops_to_json(ops: &[TOp]) -> Value {
    Value::Array(ops.iter().map(|o| match o {
        TOp::Set(e, f, t, n) => json!(["set", e, f, t, n]),
        TOp::Write(e, d) => json!(["write", e, crate::hist::data_to_json(d)]),
        TOp::Append(e, d) => json!(["append", e, crate::hist::data_to_json(d)]),
        TOp::SetDuring(e, f, t, d) => json!(["during", e, f, t, crate::hist::data_to_json(d)]),
        TOp::Idle(e, k) => json!(["idle", e, k]),
        TOp::SetWhileReading(e, f, t, n) => json!(["reading", e, f, t, n]),
    }).collect())
}

fn ops_from_json(v: &Value) -> Vec<TOp> {
    v.as_array().map(|a| a.iter().filter_map(|x| {
        let x = x.as_array()?;
        let u = |i: usize| x.get(i).and_then(|y| y.as_u64());
        match x.first()?.as_str()? {
            "set" => Some(TOp::Set(u(1)? as u8, u(2)? as u8, u(3)? as u16, u(4)? as u32)),
            "idle" => Some(TOp::Idle(u(1)? as u8, u(2)? as u8)),
            "reading" => Some(TOp::SetWhileReading(u(1)? as u8, u(2)? as u8, u(3)? as u16, u(4)? as u8)),
            "write" => Some(TOp::Write(u(1)? as u8, crate::hist::data_from_json(x.get(2)?)?)),
            "during" => Some(TOp::SetDuring(u(1)? as u8, u(2)? as u8, u(3)? as u16, crate::hist::data_from_json(x.get(4)?)?)),
            _ => Some(TOp::Append(u(1)? as u8, crate::hist::data_from_json(x.get(2)?)?)),
        }
    }).collect()).unwrap_or_default()
}

pub fn replay(v: &Value) -> CaseResult {
    let case = Case {
        cfg: Cfg::from_json(v.get("cfg").unwrap_or(&Value::Null)).unwrap_or(Cfg::Mem),
        ops: ops_from_json(v.get("ops").unwrap_or(&Value::Null)),
        lower_probe: v.get("lower_probe").and_then(|x| x.as_bool()).unwrap_or(false),
        both: v.get("both").and_then(|x| x.as_bool()).unwrap_or(false),
    };
    let mut st = Stats::default();
    test(&case, &mut st, false)
}

const RULE: &str = "time values from {epoch, +-1s, +-1e9, +-2e9, 2^31 boundary, 4e9, 1e10, 1.5e10 s} x {0,1,999999999,5e8,123456789,1000 ns} plus random sub-second parts, filtered at start-up by RAW OS calls to what the scratch filesystem round-trips exactly; the three setters in random order and repetition on two files, two directories and the filesystem's root directory (memory-backed stacks also get the ends of the SystemTime range), interleaved with create and append sessions (a quarter of them while a read handle on the same file is alive), with setters issued while a read handle that has delivered 0..16 bytes is open (dropping the reader afterwards must change nothing) and with calls on the entry that fail by contract or have nothing to do (create_dir / create_file / append_file on an existing directory, create_dir_all on it, create_dir / read_dir / remove_dir on a file): those must leave all three timestamps, length and type untouched; stacks Mem/Phys/altroot/overlay (entry in the upper layer; in half of the overlay cases the directories also exist in the lowest layer and /f0 exists there with other bytes) incl. nesting; oracle: metadata immediately before/after each setter: Ok => set field exact, the two other timestamps, length and type unchanged, bytes unchanged; unsupported (creation time over PhysicalFS) => NotSupported and metadata unchanged; supported setters must succeed; MemoryFS append keeps created; altroot/overlay report the timestamps of the served entry; non-trivial = >=2 different fields set on one entry with a write/append session between, and a value with a non-zero sub-second part";

pub fn run(ctx: &RunCtx) -> i32 {
    let usable = usable_times().len();
    let reg = crate::regress::run_for(&ctx.id, &replay);
    if let Some((path, msg)) = &reg.violation {
        println!("--- regression input fails ---\n{}", msg);
        println!("VIOLATION property={} replay={}", ctx.id, path);
        return 1;
    }
    if usable < 10 {
        println!("INFRA property=C19 scratch filesystem round-trips only {} of the candidate time values", usable);
        return 2;
    }
    let (stats, failure) = run_sharded(ctx, "times", ctx.tier.pick(30_000, 2_000_000), strategy, test);
    let pre_epoch_subsec = usable_times().iter().filter(|(s, n)| *s < 0 && *n != 0).count();
    write_evidence(ctx, "exploration", RULE, &stats, json!({"regress_replayed": reg.replayed, "usable_time_values": usable, "usable_pre_epoch_with_subsec": pre_epoch_subsec}), &["time values the host filesystem cannot round-trip natively are outside the generator's domain", "for entries that exist only in a lower overlay layer a setter need not succeed, but Ok must be exact and Err must change nothing"], failure.is_some() as u32);
    finish(ctx, &stats, &failure, &[("distinct_nontrivial", 100), ("base:mem", 100), ("base:phys", 100), ("setters_not_supported_verified", 50), ("failing_or_idle_calls_verified", 500), ("directories_present_in_upper_and_lowest_layer", 100)])
}
