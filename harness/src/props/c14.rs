//! C14 — file handles obey Read, Write and Seek (cursor reference, call by call).

use crate::config::*;
use crate::engine::*;
use crate::exec::at;
use crate::gen::*;
use crate::handles::*;
use crate::model::Node;
use crate::util::guarded;
use proptest::prelude::*;
use serde_json::{json, Value};
use std::io::{Cursor, Read, Seek, SeekFrom};
use vfs::{EmbeddedFS, VfsPath};

#[derive(Clone, Debug)]
pub struct ReadCase {
    pub cfg: Cfg,
    pub embedded: Option<u16>,
    pub content: DataSpec,
    pub in_lower: bool,
    pub script: Vec<ROp>,
}

#[derive(Clone, Debug)]
pub struct WriteCase {
    pub cfg: Cfg,
    pub initial: DataSpec,
    pub append: bool,
    pub in_lower: bool,
    pub script: Vec<WOp>,
    /// a second, complete create session on the same file, opened after `split` calls of the
    /// first script while the first handle stays open (memory-backed stacks: buffered handles)
    pub second: Vec<WOp>,
    pub split: u8,
}

pub fn handle_cfg() -> BoxedStrategy<Cfg> {
    cfg_strategy(1)
}

pub fn read_case() -> impl Strategy<Value = ReadCase> {
    (handle_cfg(), prop_oneof![4 => Just(None), 1 => any::<u16>().prop_map(Some)], data_strategy(), any::<bool>(), proptest::collection::vec(rop_strategy(), 0..30))
        .prop_map(|(cfg, embedded, content, in_lower, script)| ReadCase { cfg, embedded, content, in_lower, script })
}

pub fn write_case() -> impl Strategy<Value = WriteCase> {
    (handle_cfg(), data_strategy(), any::<bool>(), any::<bool>(), proptest::collection::vec(wop_strategy(), 0..20), prop_oneof![3 => Just(vec![]), 1 => proptest::collection::vec(wop_strategy(), 1..8)], any::<u8>())
        .prop_map(|(cfg, initial, append, in_lower, script, second, split)| WriteCase { cfg, initial, append, in_lower, script, second, split })
}

const FILE: &str = "/d/f";

pub fn embedded_files() -> Vec<(String, Vec<u8>)> {
    let mut v: Vec<(String, Vec<u8>)> = crate::embed::Fixture::iter()
        .map(|p| {
            let data = crate::embed::Fixture::get(&p).unwrap().data.to_vec();
            (format!("/{}", p), data)
        })
        .collect();
    v.sort();
    v
}

fn place(cfg: &Cfg, bytes: &crate::model::Bytes, in_lower: bool) -> Result<Built, String> {
    let n = cfg.overlay_layers();
    let layer = if in_lower && n >= 2 { n - 1 } else { 0 };
    let mut prepop: Prepop = vec![(layer, FILE.to_string(), Node::File(bytes.clone()))];
    if in_lower && n >= 3 {
        // a deeper layer holds the same name with other bytes: the upper of the two must be served
        let mut other = bytes.as_ref().clone();
        other.extend_from_slice(b"deeper-layer-version");
        prepop[0].0 = n - 2;
        prepop.push((n - 1, FILE.to_string(), Node::File(std::sync::Arc::new(other))));
    }
    build(cfg, &prepop)
}

pub fn test_read(case: &ReadCase, st: &mut Stats, counting: bool) -> CaseResult {
    let mk_fail = |msg: String, trace: &[String]| Failure {
        message: format!("read handle on {}: {}\n  script trace:\n    {}", if case.embedded.is_some() { "EmbeddedFS".to_string() } else { case.cfg.render() }, msg, trace.join("\n    ")),
        replay: json!({"kind": "c14-read", "cfg": case.cfg.to_json(), "embedded": case.embedded, "content": crate::hist::data_to_json(&case.content), "in_lower": case.in_lower, "script": rops_to_json(&case.script)}),
    };
    let mut trace = vec![];
    let r = guarded(|| -> Result<(bool, usize, String), String> {
        let (content, extremes, label, _keep, mut handle): (Vec<u8>, bool, String, Option<Built>, Box<dyn vfs::SeekAndRead + Send>) = if let Some(i) = case.embedded {
            let files = embedded_files();
            let (p, data) = files[crate::util::idx(i, files.len())].clone();
            let root = VfsPath::new(EmbeddedFS::<crate::embed::Fixture>::new());
            let h = at(&root, &p).map_err(|e| e.to_string())?.open_file().map_err(|e| format!("open_file('{}') failed: {}", p, e))?;
            (data, true, "embedded".to_string(), None, h)
        } else {
            let bytes = make_bytes(&case.content);
            let built = place(&case.cfg, &bytes, case.in_lower)?;
            let h = at(&built.root, FILE).map_err(|e| e.to_string())?.open_file().map_err(|e| format!("open_file failed: {}", e))?;
            (bytes.as_ref().clone(), !case.cfg.contains_phys(), case.cfg.top().to_string(), Some(built), h)
        };
        let nt = run_read_script(&mut handle, &content, &case.script, extremes, &mut trace)?;
        Ok((nt, content.len(), label))
    });
    match r {
        Err(p) => Err(mk_fail(format!("PANIC: {}", p), &trace)),
        Ok(Err(m)) => Err(mk_fail(m, &trace)),
        Ok(Ok((nt, len, label))) => {
            if counting {
                st.label(&format!("read:{}", label));
                st.label_n("read_ops", case.script.len() as u64);
                if len == 0 {
                    st.label("read:empty_file");
                }
                if len >= 8192 {
                    st.label("read:len>=8192");
                }
                if nt {
                    st.nontrivial.insert(crate::util::fnv_str(&format!("{:?}", case)));
                    st.label("read:nontrivial");
                }
                st.sample(json!({"kind": "read", "backend": label, "len": len, "trace": trace.iter().take(12).collect::<Vec<_>>()}), nt);
            }
            Ok(())
        }
    }
}

fn fresh_read(root: &VfsPath) -> Result<Vec<u8>, String> {
    let mut f = at(root, FILE).map_err(|e| e.to_string())?.open_file().map_err(|e| format!("open_file: {}", e))?;
    let mut v = vec![];
    f.read_to_end(&mut v).map_err(|e| format!("read: {}", e))?;
    Ok(v)
}

pub fn test_write(case: &WriteCase, st: &mut Stats, counting: bool) -> CaseResult {
    let mk_fail = |msg: String, trace: &[String]| Failure {
        message: format!("{} handle on {}: {}\n  script trace:\n    {}", if case.append { "append" } else { "create" }, case.cfg.render(), msg, trace.join("\n    ")),
        replay: json!({"kind": "c14-write", "cfg": case.cfg.to_json(), "initial": crate::hist::data_to_json(&case.initial), "append": case.append, "in_lower": case.in_lower, "script": wops_to_json(&case.script), "second": wops_to_json(&case.second), "split": case.split}),
    };
    let mut trace = vec![];
    let mut overlapped = false;
    let r = guarded(|| -> Result<bool, String> {
        let mut init = case.initial.clone();
        init.kind = 4 + init.kind % 24; // non-empty
        let bytes = make_bytes(&init);
        let built = place(&case.cfg, &bytes, case.in_lower)?;
        let p = at(&built.root, FILE).map_err(|e| e.to_string())?;
        let mut model: Cursor<Vec<u8>> = if case.append {
            let mut c = Cursor::new(bytes.as_ref().clone());
            c.seek(SeekFrom::End(0)).unwrap();
            c
        } else {
            Cursor::new(vec![])
        };
        // seek on append handles: in-memory backend only (O_APPEND differs by design)
        let allow_seek = !case.append || !case.cfg.contains_phys();
        let root = built.root.clone();
        let interesting;
        {
            let mut h = crate::util::hold(if case.append { p.append_file() } else { p.create_file() }.map_err(|e| format!("opening the handle failed: {}", e))?);
            let mut check = |m: &[u8]| -> Result<(), String> {
                let got = fresh_read(&root)?;
                if got != m {
                    return Err(format!(
                        "after flush a fresh reader sees {} but the handle's buffer is {}",
                        crate::util::show_bytes(&got),
                        crate::util::show_bytes(m)
                    ));
                }
                Ok(())
            };
            if !case.second.is_empty() && !case.cfg.contains_phys() {
                // two overlapping sessions on one file: whoever publishes (flush / drop) must
                // publish exactly its own buffer, whatever the other handle published before
                let k = (case.split as usize) % (case.script.len() + 1);
                let a = run_write_script(&mut h, &mut model, &case.script[..k], allow_seek, &mut trace, &mut check)?;
                {
                    trace.push("-- second handle (create_file) opened on the same file".into());
                    let mut h2 = crate::util::hold(p.create_file().map_err(|e| format!("opening a second handle failed: {}", e))?);
                    let mut model2: Cursor<Vec<u8>> = Cursor::new(vec![]);
                    run_write_script(&mut h2, &mut model2, &case.second, true, &mut trace, &mut check)?;
                    drop(h2);
                    let got = fresh_read(&root)?;
                    if got != *model2.get_ref() {
                        return Err(format!("the second handle was dropped: the file holds {} but its buffer was {}", crate::util::show_bytes(&got), crate::util::show_bytes(model2.get_ref())));
                    }
                    trace.push("-- second handle dropped, first handle continues".into());
                }
                let b = run_write_script(&mut h, &mut model, &case.script[k..], allow_seek, &mut trace, &mut check)?;
                interesting = a || b;
                overlapped = true;
            } else {
                interesting = run_write_script(&mut h, &mut model, &case.script, allow_seek, &mut trace, &mut check)?;
            }
        }
        // dropped: content equals the cursor's buffer
        let got = fresh_read(&root)?;
        if got != *model.get_ref() {
            return Err(format!(
                "after drop the file holds {} but a growable cursor holds {}",
                crate::util::show_bytes(&got),
                crate::util::show_bytes(model.get_ref())
            ));
        }
        let md = p.metadata().map_err(|e| e.to_string())?;
        if md.len != got.len() as u64 {
            return Err(format!("metadata len {} but {} bytes", md.len, got.len()));
        }
        Ok(interesting)
    });
    match r {
        Err(p) => Err(mk_fail(format!("PANIC: {}", p), &trace)),
        Ok(Err(m)) => Err(mk_fail(m, &trace)),
        Ok(Ok(nt)) => {
            if counting {
                st.label(&format!("write:{}:{}", if case.append { "append" } else { "create" }, case.cfg.top()));
                st.label_n("write_ops", case.script.len() as u64);
                if case.in_lower && case.cfg.overlay_layers() >= 2 && case.append {
                    st.label("write:overlay_copy_up_append");
                }
                if overlapped {
                    st.label("write:two_overlapping_sessions");
                }
                if nt {
                    st.nontrivial.insert(crate::util::fnv_str(&format!("{:?}", case)));
                    st.label("write:nontrivial");
                }
                st.sample(json!({"kind": "write", "append": case.append, "backend": case.cfg.render(), "trace": trace.iter().take(12).collect::<Vec<_>>()}), nt);
            }
            Ok(())
        }
    }
}

const RULE: &str = "read scripts vec(read(n)|seek(Start|Current|End, offset),0..30) on read handles from Mem/Phys/altroot/overlay (file in upper or lower layer)/EmbeddedFS over contents of 0..70 KiB, offsets concentrated on {0,1,len-1,len,len+1,len+k,-1,-len,-len-1,i64::MIN/MAX,u64::MAX}; write scripts vec(write|seek|flush,0..20) on create and append handles; oracle = std::io::Cursor over the same bytes call by call (seek result, short-read-tolerant read contents, zero-filled gaps), after every flush and after drop a fresh reader returns exactly the cursor's buffer; one write case in four on memory-backed stacks opens a second create session on the same file while the first handle is open (each publication must be exactly the publishing handle's buffer); non-trivial read script = a seek relative to End/Current landing outside [0,len) followed by a read; non-trivial write script = contains an accepted seek; distinct by case hash";

pub fn replay(v: &Value) -> CaseResult {
    let cfg = Cfg::from_json(v.get("cfg").unwrap_or(&Value::Null)).unwrap_or(Cfg::Mem);
    let mut st = Stats::default();
    match v.get("kind").and_then(|k| k.as_str()) {
        Some("c14-read") => {
            let case = ReadCase {
                cfg,
                embedded: v.get("embedded").and_then(|x| x.as_u64()).map(|x| x as u16),
                content: crate::hist::data_from_json(v.get("content").unwrap_or(&Value::Null)).unwrap_or(DataSpec { kind: 8, len: 3, seed: 0 }),
                in_lower: v.get("in_lower").and_then(|x| x.as_bool()).unwrap_or(false),
                script: rops_from_json(v.get("script").unwrap_or(&Value::Null)),
            };
            test_read(&case, &mut st, false)
        }
        Some("c14-write") => {
            let case = WriteCase {
                cfg,
                initial: crate::hist::data_from_json(v.get("initial").unwrap_or(&Value::Null)).unwrap_or(DataSpec { kind: 8, len: 3, seed: 0 }),
                append: v.get("append").and_then(|x| x.as_bool()).unwrap_or(false),
                in_lower: v.get("in_lower").and_then(|x| x.as_bool()).unwrap_or(false),
                script: wops_from_json(v.get("script").unwrap_or(&Value::Null)),
                second: wops_from_json(v.get("second").unwrap_or(&Value::Null)),
                split: v.get("split").and_then(|x| x.as_u64()).unwrap_or(0) as u8,
            };
            test_write(&case, &mut st, false)
        }
        _ => Err(Failure { message: "unknown C14 replay kind".into(), replay: v.clone() }),
    }
}

pub fn run_parts(ctx: &RunCtx, nread: u32, nwrite: u32) -> (Stats, Option<Failure>) {
    let (mut stats, mut failure) = run_sharded(ctx, "read", nread, read_case, test_read);
    if failure.is_none() {
        let (s2, f2) = run_sharded(ctx, "write", nwrite, write_case, test_write);
        stats.merge(s2);
        failure = f2;
    }
    (stats, failure)
}

pub fn run(ctx: &RunCtx) -> i32 {
    let reg = crate::regress::run_for(&ctx.id, &replay);
    if let Some((path, msg)) = &reg.violation {
        println!("--- regression input fails ---\n{}", msg);
        println!("VIOLATION property={} replay={}", ctx.id, path);
        return 1;
    }
    let (stats, failure) = run_parts(ctx, ctx.tier.pick(40_000, 2_000_000), ctx.tier.pick(20_000, 1_000_000));
    write_evidence(
        ctx,
        "exploration",
        RULE,
        &stats,
        json!({"regress_replayed": reg.replayed}),
        &["on PhysicalFS offsets beyond i64::MAX and seeks on append handles are outside the domain (OS limits / O_APPEND)", "short reads are legal under Read: the model advances by the count actually returned", "write-seek targets are bounded by 20 MiB (memory, not logic); excursions to the ends of the offset range seek without writing there"],
        failure.is_some() as u32,
    );
    finish(ctx, &stats, &failure, &[("distinct_nontrivial", 500), ("read:embedded", 50), ("read:phys", 50), ("read:mem", 50), ("write:overlay_copy_up_append", 10)])
}
