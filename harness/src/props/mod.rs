pub mod c01;
pub mod c02;
pub mod c03;
pub mod c04;
pub mod c05;
pub mod c06;
pub mod c07;
pub mod c08;
pub mod c09;
pub mod c10;
pub mod c11;
pub mod c12;
pub mod c13;
pub mod c14;
pub mod c15;
pub mod c16;
pub mod c17;
pub mod c18;
pub mod c19;
pub mod c20;
pub mod common;

use crate::engine::*;

pub fn run(ctx: &RunCtx) -> i32 {
    match ctx.id.as_str() {
        "C01" => c01::prop().run(ctx),
        "C02" => c02::run(ctx),
        "C03" => c03::prop().run(ctx),
        "C04" => c04::run(ctx),
        "C05" => c05::prop().run(ctx),
        "C06" => c06::run(ctx),
        "C07" => c07::run(ctx),
        "C08" => c08::run(ctx),
        "C09" => c09::prop().run(ctx),
        "C10" => c10::run(ctx),
        "C11" => c11::run(ctx),
        "C12" => c12::run(ctx),
        "C13" => c13::run(ctx),
        "C14" => c14::run(ctx),
        "C15" => c15::run(ctx),
        "C16" => c16::run(ctx),
        "C17" => c17::run(ctx),
        "C18" => c18::run(ctx),
        "C19" => c19::run(ctx),
        "C20" => c20::run(ctx),
        other => {
            eprintln!("unknown property {}", other);
            2
        }
    }
}

pub fn replay(id: &str, v: &serde_json::Value) -> CaseResult {
    match id {
        "C01" => c01::prop().replay(v),
        "C02" => c02::replay(v),
        "C03" => c03::prop().replay(v),
        "C04" => c04::replay(v),
        "C05" => c05::prop().replay(v),
        "C06" => c06::replay(v),
        "C07" => c07::replay(v),
        "C08" => c08::replay(v),
        "C09" => c09::prop().replay(v),
        "C10" => c10::replay(v, false),
        "C11" => c11::replay(v),
        "C12" => c12::replay(v),
        "C13" => c13::replay(v),
        "C14" => c14::replay(v),
        "C15" => c15::replay(v),
        "C16" => c16::replay(v),
        "C17" => c17::replay(v),
        "C18" => c18::replay(v),
        "C19" => c19::replay(v),
        "C20" => c20::replay(v),
        _ => Err(Failure { message: format!("unknown property '{}' in replay file", id), replay: v.clone() }),
    }
}
