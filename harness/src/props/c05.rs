//! C05 — existence, metadata, listings and traversal agree (pure observer relations).

use super::common::*;
use crate::gen::Profile;
use crate::hist::*;

pub fn prop() -> HistProp {
    let mut opts = HistOpts::new(Profile::Untyped);
    opts.observers = true;
    // on overlays a second instance over the same layers (one built before the history, one after
    // every step) must tell one consistent story too
    opts.twin = true;
    HistProp {
        opts,
        cfgs: || crate::gen::with_emb(crate::gen::cfg_deep()),
        max_ops: 25,
        max_prepop: 8,
        cases_quick: 700,
        cases_thorough: 50_000,
        nontrivial: |s, _| s.max_levels >= 2 && s.prefix_pair_present && s.absent_probed >= 1 && s.below_file_probed >= 1,
        rule: "reachable states of untyped histories vec(op,0..=25) on every backend stack; after every step for every universe path (absent ones, paths below files and the root included): exists<=>metadata Ok, is_file/is_dir<=>metadata type, exists(p)<=>parent lists name exactly once, listed names bare and existing, is_dir<=>read_dir Ok, is_file<=>read session Ok with len=metadata.len, walk_dir(d) = recursive read_dir as a set, each once, parent before child; listings consumed through nth/skip/step_by/count/last/size_hint deliver the names of plain iteration; on overlays the same relations on a second OverlayFS instance over the same layers (built before the history / after every step); no model involved; non-trivial = state with >=2 levels, a prefix-sibling name pair in the pool, >=1 absent and >=1 below-a-file path probed",
        floors: vec![("distinct_nontrivial", 20), ("cfg:mem", 3), ("cfg:phys", 3), ("cfg:altroot", 3), ("cfg:overlay", 3)],
        assumptions: vec!["the relations are evaluated in quiescent states (no concurrent mutation)"],
        exclude: crate::findings::hist_excluder("C05"),
        labeler: |s, _, st| {
            st.label_n("paths_absent_probed", s.absent_probed);
            st.label_n("paths_below_file_probed", s.below_file_probed);
        },
    }
}
