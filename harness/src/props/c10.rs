//! C10 — overlay deletions persist, re-creation starts fresh, bookkeeping is hidden.
//!
//! Phase-directed histories: every step carries a phase tag: remove an entry that lives in a
//! lower layer / re-create a previously removed path (same or other type) / unrelated typed op.

use super::common::no_labels;
use crate::config::Cfg;
use crate::engine::*;
use crate::gen::*;
use crate::hist::*;
use crate::model::*;
use crate::util::idx;
use proptest::prelude::*;
use serde_json::{json, Value};
use std::collections::BTreeSet;

#[derive(Clone, Debug)]
pub struct C10Case {
    pub base: HistCase,
    pub phases: Vec<u8>,
}

fn strategy() -> impl Strategy<Value = C10Case> {
    (hist_strategy(overlay_cfg_strategy(2, 2), 36, 16), proptest::collection::vec(any::<u8>(), 36))
        .prop_map(|(base, phases)| C10Case { base, phases })
}

fn opts() -> HistOpts {
    let mut o = HistOpts::new(Profile::Typed);
    o.contract = true;
    o.hidden = true;
    o.twin = true;
    o
}

const RULE: &str = "overlays of 2..4 layers with nested subtrees pre-populated in the layers; every step is phase-tagged: (a) remove an entry that lives in a lower layer (remove_file / remove_dir / remove_dir_all), (b) re-create a previously removed path as file or directory (same or other type), (c) an unrelated typed C01 op; after every step the full snapshot (recursive read_dir, exists+metadata over the universe, bytes) must equal the model: removed subtrees stay absent, re-created files hold only the new bytes, re-created directories are empty, and no '.whiteout'/'_wo' name is listed anywhere; deletions persist across instances: a second OverlayFS built over the same layers before the history and a fresh one built after every step show the same tree; non-trivial = a lower-layer entry removed, >=3 later ops, and a re-creation of a removed path";

fn test(case: &C10Case, st: &mut Stats, counting: bool, exclude: &Excluder) -> CaseResult {
    let (pool, depth) = effective(&case.base);
    // bias pre-population towards the lower layers and towards depth
    let nlayers = case.base.cfg.overlay_layers().max(1);
    let mut raw = case.base.prepop.clone();
    for e in raw.iter_mut() {
        if nlayers >= 2 && e.mask % 4 != 0 {
            e.mask &= !1; // mostly not in the upper layer
        }
    }
    let prepop = make_prepop(&raw, &pool, depth, nlayers);
    let base = &case.base;
    let phases = &case.phases;
    let provider = move |i: usize, model: &Tree, ctx: &Ctx, lowers: &BTreeSet<String>, removed: &BTreeSet<String>| -> Op {
        let raw = &base.ops[i];
        let phase = phases.get(i).copied().unwrap_or(0);
        match phase % 8 {
            0 | 1 => {
                // remove something that lives in a lower layer
                let cands: Vec<&String> = lowers.iter().filter(|p| model.exists(p)).collect();
                if !cands.is_empty() {
                    let p = cands[idx(raw.a, cands.len())].clone();
                    return if model.is_file(&p) {
                        Op::RemoveFile(p)
                    } else if model.has_children(&p) || raw.b % 2 == 0 {
                        Op::RemoveDirAll(p)
                    } else {
                        Op::RemoveDir(p)
                    };
                }
            }
            2 | 3 => {
                // re-create a removed path (parent must be a directory now)
                let cands: Vec<&String> =
                    removed.iter().filter(|p| !model.exists(p) && model.is_dir(&parent_of(p))).collect();
                if !cands.is_empty() {
                    let p = cands[idx(raw.a, cands.len())].clone();
                    return if raw.b % 2 == 0 { Op::CreateDir(p) } else { Op::CreateFile(p, make_bytes(&raw.data)) };
                }
            }
            _ => {}
        }
        resolve(raw, model, ctx, Profile::Typed, false)
    };
    let plan = Plan {
        cfg: &case.base.cfg,
        pool,
        depth,
        prepop,
        source: OpSource::Dyn(&provider, case.base.ops.len()),
        replay: json!({"kind": "c10", "case": case.base.to_json(), "phases": case.phases}),
    };
    let o = opts();
    let r = run_plan(&plan, &o, exclude, st)?;
    if counting {
        let s = &r.summary;
        let nt = s.lower_only_mutations >= 1 && s.ops_after_lower_removal >= 3 && (s.recreate_type_change + s.recreate_same_type) >= 1;
        st.label_n("ops_executed", s.executed as u64);
        st.label_n("recreate_type_change", s.recreate_type_change as u64);
        st.label_n("recreate_same_type", s.recreate_same_type as u64);
        st.label_n("deep_lower_dir_removed", s.removed_lower_dirs_deep as u64);
        st.label_n("second_overlay_instance_views_compared", s.twin_views as u64);
        if s.recreate_type_change > 0 {
            st.label("cases_with_type_changing_recreation");
        }
        if nt {
            st.nontrivial.insert(crate::util::fnv(serde_json::to_string(&plan.replay).unwrap().as_bytes()));
            st.label("nontrivial_cases");
        }
        st.sample(sample_json(&case.base, &o, &r.trace), nt);
    }
    Ok(())
}

fn from_json(v: &Value) -> Option<C10Case> {
    Some(C10Case {
        base: HistCase::from_json(v.get("case")?)?,
        phases: v.get("phases")?.as_array()?.iter().filter_map(|x| x.as_u64().map(|y| y as u8)).collect(),
    })
}

pub fn replay(v: &Value, strict: bool) -> CaseResult {
    let exclude = if strict { no_exclusions() } else { crate::findings::hist_excluder("C10") };
    if v.get("kind").and_then(|k| k.as_str()) == Some("script") {
        return run_script(v, &opts(), &*exclude);
    }
    let case = from_json(v).ok_or_else(|| Failure { message: "unparsable C10 replay".into(), replay: v.clone() })?;
    let mut st = Stats::default();
    test(&case, &mut st, false, &*exclude)
}

pub fn run(ctx: &RunCtx) -> i32 {
    let reg = crate::regress::run_for(&ctx.id, &|v| replay(v, true));
    if let Some((path, msg)) = &reg.violation {
        println!("--- regression input fails ---\n{}", msg);
        println!("VIOLATION property={} replay={}", ctx.id, path);
        let mut st = Stats::default();
        st.evaluations = reg.replayed as u64;
        write_evidence(ctx, "exploration", RULE, &st, json!({"note": "a committed regression input failed"}), &[], 1);
        return 1;
    }
    let exclude = crate::findings::hist_excluder("C10");
    let cases = ctx.tier.pick(2500, 100_000);
    let (stats, failure) = run_sharded(ctx, "c10", cases, strategy, |c, st, counting| test(c, st, counting, &*exclude));
    write_evidence(
        ctx,
        "exploration",
        RULE,
        &stats,
        json!({"regress_replayed": reg.replayed, "known_findings_confirmed": reg.known_confirmed}),
        &["pre-populated layers are type-consistent; type conflicts arise dynamically by remove + re-create", "the reserved names '.whiteout' and '*_wo' are never used as entry names"],
        failure.is_some() as u32,
    );
    let _ = no_labels;
    let _: Option<Cfg> = None;
    finish(ctx, &stats, &failure, &[("distinct_nontrivial", 100), ("cases_with_type_changing_recreation", 100)])
}
