//! C13 — no operation panics (unrestricted domain).
//!
//! Parts: (a) untyped histories incl. calls on and removal of the root, timestamp setters;
//! (b) handle scripts of C14's domain (only panics count here); (c) handles used after their
//! file / parent directory was removed; (d) every operation on every EmbeddedFS path;
//! (e) PhysicalFS roots with hostile on-disk content (non-UTF-8 names, dangling symlinks);
//! (f) the async port (histories and handle use through the async API); (g) every async path
//! operation once under futures::executor and async-std (the other parts use tokio).

use super::common::*;
use crate::config::*;
use crate::engine::*;
use crate::exec::*;
use crate::gen::*;
use crate::hist::*;
use crate::model::*;
use crate::util::{guarded, idx};
use proptest::prelude::*;
use serde_json::{json, Value};
use std::io::{Read, Seek, SeekFrom, Write};
use vfs::{PhysicalFS, VfsPath};

fn hist_prop() -> HistProp {
    let mut opts = HistOpts::new(Profile::Untyped);
    opts.with_time = true;
    opts.root_removal = true;
    opts.universe_probe = false;
    HistProp {
        opts,
        cfgs: || crate::gen::with_emb(crate::gen::cfg_deep()),
        max_ops: 40,
        max_prepop: 8,
        cases_quick: 3000,
        cases_thorough: 60_000,
        nontrivial: |_, _| true,
        rule: "",
        floors: vec![],
        assumptions: vec![],
        exclude: crate::findings::hist_excluder("C13"),
        labeler: no_labels,
    }
}

// ---------------------------------------------------------------------------------------------
// (c) handles used after removal
// ---------------------------------------------------------------------------------------------

#[derive(Clone, Debug)]
pub struct StaleCase {
    pub cfg: Cfg,
    pub writer: u8,
    pub removal: u8,
    pub data: DataSpec,
    pub uses: Vec<(u8, i16)>,
}

fn stale_strategy() -> impl Strategy<Value = StaleCase> {
    (cfg_strategy(2), any::<u8>(), any::<u8>(), data_strategy(), proptest::collection::vec((any::<u8>(), any::<i16>()), 1..8))
        .prop_map(|(cfg, writer, removal, data, uses)| StaleCase { cfg, writer, removal, data, uses })
}

fn test_stale(case: &StaleCase, st: &mut Stats, counting: bool) -> CaseResult {
    let mut trace = vec![];
    let r = guarded(|| -> Result<(), String> {
        let n = case.cfg.overlay_layers();
        let bytes = make_bytes(&case.data);
        let layer = if case.writer % 2 == 1 && n >= 2 { n - 1 } else { 0 };
        let prepop: Prepop = vec![(layer, "/d/s/f".into(), Node::File(bytes.clone())), (0, "/d/keep".into(), Node::File(bytes.clone()))];
        let built = build(&case.cfg, &prepop)?;
        let root = built.root.clone();
        let f = at(&root, "/d/s/f").map_err(|e| e.to_string())?;
        enum H {
            R(Box<dyn vfs::SeekAndRead + Send>),
            W(Box<dyn vfs::SeekAndWrite + Send>),
        }
        let mut h = match case.writer % 3 {
            0 => H::R(f.open_file().map_err(|e| e.to_string())?),
            1 => H::W(f.append_file().map_err(|e| e.to_string())?),
            _ => H::W(f.create_file().map_err(|e| e.to_string())?),
        };
        // remove the file, its directory, or the whole subtree while the handle is open
        let how = case.removal % 4;
        let rm = match how {
            0 => f.remove_file().map(|_| "remove_file(f)"),
            1 => at(&root, "/d/s").unwrap().remove_dir_all().map(|_| "remove_dir_all(parent)"),
            2 => at(&root, "/d").unwrap().remove_dir_all().map(|_| "remove_dir_all(grandparent)"),
            _ => f.remove_file().and_then(|_| at(&root, "/d/s").unwrap().create_file().map(|_| ())).map(|_| "remove f, parent becomes a file"),
        };
        trace.push(format!("handle kind {} open, then {:?}", case.writer % 3, rm.as_ref().map_err(|e| e.to_string())));
        for (k, v) in &case.uses {
            match &mut h {
                H::R(r) => match k % 3 {
                    0 => {
                        let mut buf = vec![0u8; (*v as u16 % 5000) as usize];
                        let x = r.read(&mut buf);
                        trace.push(format!("read({}) -> {:?}", buf.len(), x.map_err(|e| e.kind())));
                    }
                    1 => {
                        let x = r.seek(SeekFrom::End(*v as i64));
                        trace.push(format!("seek(End({})) -> {:?}", v, x.map_err(|e| e.kind())));
                    }
                    _ => {
                        let x = r.seek(SeekFrom::Current(*v as i64 * 977));
                        trace.push(format!("seek(Current({})) -> {:?}", *v as i64 * 977, x.map_err(|e| e.kind())));
                    }
                },
                H::W(w) => match k % 4 {
                    0 => {
                        let x = w.write_all(&vec![7u8; (*v as u16 % 9000) as usize]);
                        trace.push(format!("write -> {:?}", x.map_err(|e| e.kind())));
                    }
                    1 => {
                        let x = w.flush();
                        trace.push(format!("flush -> {:?}", x.map_err(|e| e.kind())));
                    }
                    2 => {
                        let x = w.seek(SeekFrom::Start((*v as u16) as u64));
                        trace.push(format!("seek -> {:?}", x.map_err(|e| e.kind())));
                    }
                    _ => {
                        let x = w.seek(SeekFrom::End(*v as i64));
                        trace.push(format!("seek(End({})) -> {:?}", v, x.map_err(|e| e.kind())));
                    }
                },
            }
        }
        trace.push("drop handle".into());
        drop(h);
        // the filesystem stays usable: re-create and remove around the place the handle wrote to
        // (a stale handle may have re-published its file below a removed directory)
        let follow: [Op; 9] = [
            Op::CreateDirAll("/d/s".into()),
            Op::ReadDir("/d/s".into()),
            Op::RemoveFile("/d/s/f".into()),
            Op::CreateFile("/d/s/f".into(), std::sync::Arc::new(b"again".to_vec())),
            Op::Append("/d/s/f".into(), std::sync::Arc::new(b"!".to_vec())),
            Op::Metadata("/d/s".into()),
            Op::RemoveDirAll("/d".into()),
            Op::CreateDir("/d".into()),
            Op::WalkDir(String::new()),
        ];
        let start = (case.removal as usize / 4) % follow.len();
        for i in 0..follow.len() {
            let op = &follow[(start + i * (1 + case.writer as usize % 2)) % follow.len()];
            let out = exec(&root, op);
            trace.push(format!("{} -> {}", op.render(), out.class_str()));
            if let Outcome::Panic(m) = out {
                return Err(format!("{} panicked after a stale handle was dropped: {}", op.render(), m));
            }
        }
        let s = crate::observe::snapshot(&root);
        if let Some(p) = s.problems.iter().find(|p| p.starts_with("PANIC")) {
            return Err(p.clone());
        }
        Ok(())
    });
    let rep = json!({"kind": "c13-stale", "cfg": case.cfg.to_json(), "writer": case.writer, "removal": case.removal, "data": data_to_json(&case.data), "uses": case.uses});
    match r {
        Err(p) => Err(Failure { message: format!("stack {}: PANIC while using a handle after removal: {}\n    {}", case.cfg.render(), p, trace.join("\n    ")), replay: rep }),
        Ok(Err(m)) if m.contains("panicked") || m.contains("PANIC") => Err(Failure { message: format!("stack {}: {}\n    {}", case.cfg.render(), m, trace.join("\n    ")), replay: rep }),
        Ok(_) => {
            if counting {
                st.label("stale_handle_cases");
                st.label(&format!("stale:{}", ["reader", "append", "create"][(case.writer % 3) as usize]));
                st.nontrivial.insert(crate::util::fnv_str(&format!("{:?}", case)));
                st.sample(json!({"part": "handle-after-removal", "stack": case.cfg.render(), "trace": trace}), true);
            }
            Ok(())
        }
    }
}

// ---------------------------------------------------------------------------------------------
// (e) hostile on-disk directory content
// ---------------------------------------------------------------------------------------------

#[derive(Clone, Debug)]
pub struct HostileCase {
    pub alt: bool,
    pub ovl: bool,
    pub ops: Vec<RawOp>,
}

fn hostile_strategy() -> impl Strategy<Value = HostileCase> {
    (any::<bool>(), any::<bool>(), proptest::collection::vec(rawop_strategy(), 1..25)).prop_map(|(alt, ovl, ops)| HostileCase { alt, ovl, ops })
}

fn test_hostile(case: &HostileCase, st: &mut Stats, counting: bool) -> CaseResult {
    use std::os::unix::ffi::OsStrExt;
    let mut trace = vec![];
    let r = guarded(|| -> Result<(), String> {
        let s = crate::util::Scratch::new("hostile");
        let rootdir = s.dir.join("root");
        std::fs::create_dir_all(rootdir.join("d")).map_err(|e| e.to_string())?;
        // prepared with std::fs: non-UTF-8 names and dangling symlinks, in the root and below
        for dir in [rootdir.clone(), rootdir.join("d")] {
            let bad = std::ffi::OsStr::from_bytes(b"bad\xff\xfename");
            std::fs::write(dir.join(bad), b"x").map_err(|e| e.to_string())?;
            std::fs::create_dir(dir.join(std::ffi::OsStr::from_bytes(b"\xc3\x28dir"))).map_err(|e| e.to_string())?;
            std::os::unix::fs::symlink("does-not-exist", dir.join("dangling")).map_err(|e| e.to_string())?;
            std::os::unix::fs::symlink(dir.join("nowhere/at/all"), dir.join("a")).map_err(|e| e.to_string())?;
            std::fs::write(dir.join("plain"), b"plain").map_err(|e| e.to_string())?;
        }
        let mut root = VfsPath::new(PhysicalFS::new(&rootdir));
        if case.ovl {
            root = VfsPath::new(vfs::OverlayFS::new(&[VfsPath::new(vfs::MemoryFS::new()), root]));
        }
        if case.alt {
            root = VfsPath::new(vfs::AltrootFS::new(root.join("d").map_err(|e| e.to_string())?));
        }
        let pool: Vec<String> = vec!["a".into(), "dangling".into(), "plain".into(), "d".into(), "n".into()];
        let uni = crate::observe::universe(&pool, 2);
        let ctx = Ctx { pool: &pool, depth: 2, uni: &uni };
        let mut view = crate::observe::snapshot(&root).tree;
        for raw in &case.ops {
            let op = resolve(raw, &view, &ctx, Profile::Untyped, true);
            if removes_root(&op) {
                continue;
            }
            let out = exec(&root, &op);
            trace.push(format!("{} -> {}", op.render(), out.class_str()));
            if let Outcome::Panic(m) = out {
                return Err(format!("{} panicked: {}", op.render(), m));
            }
            let s = crate::observe::snapshot(&root);
            if let Some(p) = s.problems.iter().find(|p| p.starts_with("PANIC")) {
                return Err(format!("observing after {}: {}", op.render(), p));
            }
            view = s.tree;
        }
        Ok(())
    });
    let mk = |m: String| Failure {
        message: format!("PhysicalFS root with non-UTF-8 names and dangling symlinks (altroot={}, overlay={}): {}\n    {}", case.alt, case.ovl, m, trace.join("\n    ")),
        replay: json!({"kind": "c13-hostile", "alt": case.alt, "ovl": case.ovl, "ops": case.ops.iter().map(rawop_to_json).collect::<Vec<_>>()}),
    };
    match r {
        Err(p) => Err(mk(format!("PANIC: {}", p))),
        Ok(Err(m)) => Err(mk(m)),
        Ok(Ok(())) => {
            if counting {
                st.label("hostile_dir_cases");
                st.nontrivial.insert(crate::util::fnv_str(&format!("{:?}", case)));
                st.sample(json!({"part": "hostile-directory", "trace": trace.iter().take(10).collect::<Vec<_>>()}), true);
            }
            Ok(())
        }
    }
}

const RULE: &str = "unrestricted domain, only panics count: (a) untyped histories vec(op,0..=40) incl. calls on and removal of the root and timestamp setters on every backend stack; (b) C14's read/seek and write/seek/flush scripts (zero-length buffers, offsets at 0, len+-1, far, i64::MIN/MAX, u64::MAX) on Mem/Phys/altroot/overlay/EmbeddedFS handles; (c) read, append and create handles used (read, seek, write, flush, drop) after their file, its directory or an ancestor was removed or turned into a file; (d) all 24 operations on every path of the EmbeddedFS path set incl. the root; (e) PhysicalFS roots prepared with std::fs to contain non-UTF-8 names and dangling symlinks, plain and behind altroot/overlay; (f) the same histories, reader scripts and walks through the async port on a tokio current-thread runtime; (g) every async path operation once on an async physical and in-memory filesystem driven by futures::executor and by async-std; timestamp setters also with the ends of the SystemTime range, and (h) every setter with 7 range-end values followed by an append / create session, a copy, reads and walks on four stacks; every call runs under catch_unwind with a recording panic hook; non-trivial = a case containing a root-targeted mutator, a reader positioned outside [0,len], a handle used after removal, a hostile directory entry or an EmbeddedFS root call";

pub fn replay(v: &Value) -> CaseResult {
    let mut st = Stats::default();
    match v.get("kind").and_then(|k| k.as_str()) {
        Some("c13-stale") => {
            let case = StaleCase {
                cfg: Cfg::from_json(v.get("cfg").unwrap_or(&Value::Null)).unwrap_or(Cfg::Mem),
                writer: v.get("writer").and_then(|x| x.as_u64()).unwrap_or(0) as u8,
                removal: v.get("removal").and_then(|x| x.as_u64()).unwrap_or(0) as u8,
                data: data_from_json(v.get("data").unwrap_or(&Value::Null)).unwrap_or(DataSpec { kind: 8, len: 0, seed: 0 }),
                uses: v.get("uses").and_then(|x| x.as_array()).map(|a| a.iter().filter_map(|p| Some((p.get(0)?.as_u64()? as u8, p.get(1)?.as_i64()? as i16))).collect()).unwrap_or_default(),
            };
            test_stale(&case, &mut st, false)
        }
        Some("c13-executors") => executor_sweep().map(|_| ()),
        Some("c13-range-end-times") => range_end_times().map(|_| ()),
        Some("c13-hostile") => {
            let case = HostileCase {
                alt: v.get("alt").and_then(|x| x.as_bool()).unwrap_or(false),
                ovl: v.get("ovl").and_then(|x| x.as_bool()).unwrap_or(false),
                ops: v.get("ops").and_then(|x| x.as_array()).map(|a| a.iter().filter_map(rawop_from_json).collect()).unwrap_or_default(),
            };
            test_hostile(&case, &mut st, false)
        }
        Some("c14-read") | Some("c14-write") => only_panics(super::c14::replay(v)),
        Some("c18") => only_panics(super::c18::replay(v)),
        Some("c15") | Some("c15-reader") | Some("c15-futures-drop") | Some("c15-walkrm") => only_panics(super::c15::replay(v)),
        _ => only_panics(hist_prop().replay(v)),
    }
}

// ---------------------------------------------------------------------------------------------
// (g) the async port under executors other than tokio
// ---------------------------------------------------------------------------------------------

/// Every async path operation once, on a physical and (where KF-2 allows) an in-memory async
/// filesystem, driven by `futures::executor` and by async-std: errors are fine, panics are not.
fn executor_sweep() -> Result<u64, Failure> {
    use vfs::async_vfs::{AsyncMemoryFS, AsyncPhysicalFS, AsyncVfsPath};
    async fn battery(root: AsyncVfsPath, with_writers: bool) -> u64 {
        use async_std::io::{ReadExt, WriteExt};
        use futures::StreamExt;
        let mut n = 0u64;
        let t = crate::exec::time_of(1_000_000_000, 5);
        let d = root.join("d/e").unwrap();
        let f = root.join("d/f").unwrap();
        let g = root.join("d/g").unwrap();
        let _ = d.create_dir_all().await;
        n += 1;
        if with_writers {
            if let Ok(mut h) = f.create_file().await {
                let _ = h.write_all(b"content").await;
                let _ = h.flush().await;
            }
            if let Ok(mut h) = f.append_file().await {
                let _ = h.write_all(b" more").await;
                let _ = h.flush().await;
            }
            n += 2;
        }
        for p in [&f, &d, &g, &root] {
            let _ = p.exists().await;
            let _ = p.metadata().await;
            let _ = p.is_file().await;
            let _ = p.is_dir().await;
            let _ = p.set_modification_time(t).await;
            let _ = p.set_access_time(t).await;
            let _ = p.set_creation_time(t).await;
            if let Ok(mut s) = p.read_dir().await {
                while let Some(_x) = s.next().await {}
            }
            if let Ok(mut h) = p.open_file().await {
                let mut v = vec![];
                let _ = h.read_to_end(&mut v).await;
            }
            let _ = p.read_to_string().await;
            if let Ok(mut w) = p.walk_dir().await {
                while let Some(_x) = w.next().await {}
            }
            n += 12;
        }
        if with_writers {
            let _ = f.copy_file(&g).await;
            let _ = g.move_file(&root.join("d/h").unwrap()).await;
            let _ = root.join("d").unwrap().copy_dir(&root.join("c").unwrap()).await;
            let _ = root.join("c").unwrap().move_dir(&root.join("m").unwrap()).await;
            n += 4;
        }
        let _ = f.remove_file().await;
        let _ = d.remove_dir().await;
        let _ = root.join("d").unwrap().remove_dir_all().await;
        n + 3
    }
    let mut total = 0u64;
    for exec_name in ["futures::executor::block_on", "async_std::task::block_on"] {
        for backend in ["physical", "memory"] {
            // KF-2: dropping an AsyncMemoryFS write handle under futures::executor panics (open finding)
            let with_writers = !(exec_name.starts_with("futures") && backend == "memory");
            let scratch = crate::util::Scratch::new("exec");
            let root = if backend == "physical" { AsyncVfsPath::new(AsyncPhysicalFS::new(scratch.dir.clone())) } else { AsyncVfsPath::new(AsyncMemoryFS::new()) };
            let r = guarded(|| crate::asyncfs::with_stdout_silenced(|| if exec_name.starts_with("futures") { futures::executor::block_on(battery(root.clone(), with_writers)) } else { async_std::task::block_on(battery(root.clone(), with_writers)) }));
            match r {
                Ok(n) => total += n,
                Err(p) => {
                    return Err(Failure { message: format!("async {} backend driven by {}: PANIC: {}", backend, exec_name, p), replay: json!({"kind": "c13-executors"}) });
                }
            }
        }
    }
    Ok(total)
}

// ---------------------------------------------------------------------------------------------
// (h) range-end timestamps followed by sessions and observers
// ---------------------------------------------------------------------------------------------

fn range_end_times() -> Result<u64, Failure> {
    let mut n = 0u64;
    let cfgs = [Cfg::Mem, Cfg::Alt(Box::new(Cfg::Mem), 1), Cfg::Ovl(vec![Cfg::Mem, Cfg::Mem]), Cfg::Phys];
    let values = [(i64::MAX, 999_999_999u32), (i64::MAX, 0), (i64::MAX - 1, 999_999_999), (i64::MIN + 1, 0), (i64::MIN + 1, 1), (253_402_300_800, 0), (-62_135_596_801, 999_999_999)];
    for cfg in &cfgs {
        for (secs, nanos) in values {
            for field in [TimeField::Created, TimeField::Modified, TimeField::Accessed] {
                for follow in 0..4u8 {
                    let what = format!("stack {}: set {:?} to {}s+{}ns, then {}", cfg.render(), field, secs, nanos, ["append session", "create session", "copy_file + metadata", "read + walk"][follow as usize]);
                    let r = guarded(|| -> Result<(), String> {
                        let built = build(cfg, &vec![(0, "/d/f".to_string(), Node::File(std::sync::Arc::new(b"x".to_vec())))])?;
                        let f = at(&built.root, "/d/f").map_err(|e| e.to_string())?;
                        for target in ["/d/f", "/d"] {
                            let _ = exec(&built.root, &Op::SetTime(target.to_string(), field, secs, nanos));
                        }
                        match follow {
                            0 => {
                                if let Ok(h) = f.append_file() {
                                    let mut h = crate::util::hold(h);
                                    let _ = h.write_all(b"y");
                                    let _ = h.flush();
                                }
                            }
                            1 => {
                                if let Ok(h) = f.create_file() {
                                    let mut h = crate::util::hold(h);
                                    let _ = h.write_all(b"z");
                                    let _ = h.flush();
                                }
                            }
                            2 => {
                                let _ = exec(&built.root, &Op::CopyFile("/d/f".into(), "/d/g".into()));
                                let _ = exec(&built.root, &Op::Metadata("/d/g".into()));
                                let _ = exec(&built.root, &Op::Metadata("/d".into()));
                            }
                            _ => {
                                let _ = exec(&built.root, &Op::Read("/d/f".into()));
                                let _ = exec(&built.root, &Op::WalkDir(String::new()));
                                let _ = exec(&built.root, &Op::CreateDirAll("/d/e/f".into()));
                            }
                        }
                        let _ = f.metadata();
                        Ok(())
                    });
                    n += 1;
                    match r {
                        Ok(_) => {}
                        Err(p) => return Err(Failure { message: format!("{}: PANIC: {}", what, p), replay: json!({"kind": "c13-range-end-times"}) }),
                    }
                }
            }
        }
    }
    Ok(n)
}

fn only_panics(r: CaseResult) -> CaseResult {
    match r {
        Err(f) if f.message.contains("PANIC") || f.message.contains("panicked") => Err(f),
        _ => Ok(()),
    }
}

pub fn run(ctx: &RunCtx) -> i32 {
    let reg = crate::regress::run_for(&ctx.id, &replay);
    if let Some((path, msg)) = &reg.violation {
        println!("--- regression input fails ---\n{}", msg);
        println!("VIOLATION property={} replay={}", ctx.id, path);
        return 1;
    }
    let hp = hist_prop();
    let mut stats = Stats::default();
    let mut failure: Option<Failure> = None;
    // (a)
    {
        let (s, f) = run_sharded(ctx, "hist", ctx.tier.pick(2500, 200_000), || hist_strategy((hp.cfgs)(), hp.max_ops, hp.max_prepop), |case, st, counting| {
            let r = run_hist(case, &hp.opts, &*hp.exclude, st);
            match r {
                Ok(res) => {
                    if counting {
                        st.label("hist_cases");
                        if case.cfg.contains_emb() {
                            st.label("stack_with_embedded_lower_layer");
                        }
                        st.label_n("hist_ops", res.summary.executed as u64);
                        let root_mut = res.trace.iter().any(|t| t.contains("('')") && !t.starts_with("exists") && !t.starts_with("read") && !t.starts_with("is_") && !t.starts_with("metadata") && !t.starts_with("walk"));
                        if root_mut {
                            st.label("hist_cases_with_root_mutator");
                            st.nontrivial.insert(crate::util::fnv(serde_json::to_string(&case.to_json()).unwrap().as_bytes()));
                        }
                        st.sample(json!({"part": "untyped-history", "stack": case.cfg.render(), "history": res.trace.iter().take(10).collect::<Vec<_>>()}), root_mut);
                    }
                    Ok(())
                }
                // in model-free mode the runner only fails for panics
                Err(f) => only_panics(Err(f)),
            }
        });
        stats.merge(s);
        failure = f;
    }
    // (b)
    if failure.is_none() {
        let (s, f) = run_sharded(ctx, "hr", ctx.tier.pick(6000, 300_000), super::c14::read_case, |c, st, counting| {
            let mut tmp = Stats::default();
            let r = only_panics(super::c14::test_read(c, &mut tmp, counting));
            if counting {
                st.label("handle_read_scripts");
                if tmp.get("read:nontrivial") > 0 {
                    st.nontrivial.insert(crate::util::fnv_str(&format!("{:?}", c)));
                }
            }
            r
        });
        stats.merge(s);
        failure = f;
    }
    if failure.is_none() {
        let (s, f) = run_sharded(ctx, "hw", ctx.tier.pick(3000, 150_000), super::c14::write_case, |c, st, counting| {
            let mut tmp = Stats::default();
            let r = only_panics(super::c14::test_write(c, &mut tmp, counting));
            if counting {
                st.label("handle_write_scripts");
            }
            r
        });
        stats.merge(s);
        failure = f;
    }
    // (c)
    if failure.is_none() {
        let (s, f) = run_sharded(ctx, "stale", ctx.tier.pick(3000, 150_000), stale_strategy, test_stale);
        stats.merge(s);
        failure = f;
    }
    // (d) EmbeddedFS: reuse the C18 sweep, only panics count
    if failure.is_none() {
        let r = guarded(|| super::c18::panic_sweep());
        match r {
            Ok(Ok(n)) => {
                stats.evaluations += n;
                stats.label_n("embedded_calls", n);
                stats.nontrivial.insert(crate::util::fnv_str("embedded-root-calls"));
            }
            Ok(Err(f)) => failure = Some(f),
            Err(p) => failure = Some(Failure { message: format!("EmbeddedFS sweep PANIC: {}", p), replay: json!({"kind": "c18", "op": ["exists", ""]}) }),
        }
    }
    // (e)
    if failure.is_none() {
        let (s, f) = run_sharded(ctx, "hostile", ctx.tier.pick(600, 30_000), hostile_strategy, test_hostile);
        stats.merge(s);
        failure = f;
    }
    // (h) range-end timestamps
    if failure.is_none() {
        match range_end_times() {
            Ok(n) => {
                stats.evaluations += n;
                stats.label_n("range_end_timestamp_scenarios", n);
            }
            Err(f) => failure = Some(f),
        }
    }
    // (g) other executors
    if failure.is_none() {
        match executor_sweep() {
            Ok(n) => {
                stats.evaluations += n;
                stats.label_n("async_calls_under_futures_and_async_std_executors", n);
            }
            Err(f) => failure = Some(f),
        }
    }
    // (f) async port
    if failure.is_none() {
        let (s, f) = super::c15::panic_part(ctx);
        stats.merge(s);
        failure = f;
    }
    let _ = idx;
    write_evidence(
        ctx,
        "exploration",
        RULE,
        &stats,
        json!({"regress_replayed": reg.replayed, "known_findings_confirmed": reg.known_confirmed}),
        &["OverlayFS::new(&[]) is the one documented panic and is not called", "copy_dir/move_dir into the source's own subtree are not generated (documented non-termination)", "FIFOs, sockets and permission tricks are not generated (opening a FIFO blocks; the harness runs as root)", "the generated async parts run on a tokio current-thread runtime, as the repository's tests do; the other executors get one fixed battery of calls"],
        failure.is_some() as u32,
    );
    finish(ctx, &stats, &failure, &[("hist_cases_with_root_mutator", 100), ("stale_handle_cases", 100), ("hostile_dir_cases", 50), ("embedded_calls", 1000)])
}
