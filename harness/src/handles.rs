//! Handle scripts: read/seek scripts on read handles and write/seek/flush scripts on write
//! handles, executed call by call against std::io::Cursor as the reference.

use crate::gen::{data_strategy, make_bytes, DataSpec};
use proptest::prelude::*;
use serde_json::{json, Value};
use std::io::{Cursor, Read, Seek, SeekFrom, Write};

#[derive(Clone, Debug, PartialEq)]
pub enum Whence {
    Start,
    Current,
    End,
}

/// Offsets are described relative to the file length so that they concentrate on boundaries.
#[derive(Clone, Debug, PartialEq)]
pub struct Off {
    pub anchor: u8,
    pub delta: i8,
}

#[derive(Clone, Debug, PartialEq)]
pub enum ROp {
    Read(u8, u16),
    Seek(Whence, Off),
    /// Read::read_to_end from the current position into a vector that already holds k bytes
    ReadToEnd(u8),
    /// Read::read_exact with a buffer of the given size class
    ReadExact(u8, u16),
    /// read to the end in pieces of 1..7 bytes: one handle serves hundreds of calls
    Drain(u8),
}

#[derive(Clone, Debug, PartialEq)]
pub enum WOp {
    Write(DataSpec),
    Seek(Whence, Off),
    Flush,
}

pub fn off_strategy() -> impl Strategy<Value = Off> {
    (any::<u8>(), any::<i8>()).prop_map(|(anchor, delta)| Off { anchor, delta })
}

pub fn whence_strategy() -> impl Strategy<Value = Whence> {
    prop_oneof![Just(Whence::Start), Just(Whence::Current), Just(Whence::End)]
}

pub fn rop_strategy() -> impl Strategy<Value = ROp> {
    prop_oneof![
        6 => (any::<u8>(), any::<u16>()).prop_map(|(k, n)| ROp::Read(k, n)),
        5 => (whence_strategy(), off_strategy()).prop_map(|(w, o)| ROp::Seek(w, o)),
        1 => any::<u8>().prop_map(ROp::ReadToEnd),
        1 => (any::<u8>(), any::<u16>()).prop_map(|(k, n)| ROp::ReadExact(k, n)),
        1 => any::<u8>().prop_map(ROp::Drain),
    ]
}

pub fn wop_strategy() -> impl Strategy<Value = WOp> {
    prop_oneof![
        4 => data_strategy().prop_map(WOp::Write),
        2 => (whence_strategy(), off_strategy()).prop_map(|(w, o)| WOp::Seek(w, o)),
        1 => Just(WOp::Flush),
    ]
}

/// piece size of a Drain op: 1..7 bytes, scaled up for big files so that a drain stays below
/// ~25 000 calls
pub fn drain_piece(k: u8, remaining: u64) -> usize {
    let base = 1 + (k % 7) as usize;
    if remaining > 20_000 {
        base * 257
    } else {
        base
    }
}

/// read size from (kind, n): boundary sizes and arbitrary ones
pub fn read_size(kind: u8, n: u16, len: usize) -> usize {
    match kind % 12 {
        0 => 0,
        1 => 1,
        2 => 2,
        3 => 3,
        4 => 7,
        5 => 4096,
        6 => 8192,
        7 => 8193,
        8 => len,
        9 => len + 1,
        _ => n as usize,
    }
}

/// Concrete SeekFrom for a file of length `len` at position `pos`.
/// `extremes` = allow offsets beyond i64::MAX / i64::MIN (not representable by the OS).
pub fn seek_from(w: &Whence, o: &Off, len: u64, extremes: bool, bound: Option<u64>) -> SeekFrom {
    let l = len as i64;
    let d = o.delta as i64;
    let base: i64 = match o.anchor % 14 {
        0 => 0,
        1 => 1,
        2 => l - 1,
        3 => l,
        4 => l + 1,
        5 => l + 17 + d.abs() * 3,
        6 => -1,
        7 => -l,
        8 => -l - 1,
        9 => l / 2,
        10 => d,
        11 => {
            if extremes {
                i64::MAX
            } else if o.delta as u8 % 16 == 7 {
                // rarely a gap beyond 16 MiB (17 MiB + d)
                l + (17 << 20) + d
            } else if o.delta % 4 == 3 {
                // a gap of one or two MiB (write scripts are bounded by WRITE_SEEK_BOUND)
                l + (1 << 20) * (1 + (o.delta as i64 & 4) / 4) + d
            } else {
                l + 1000
            }
        }
        12 => {
            if extremes {
                i64::MIN
            } else {
                -l - 1000
            }
        }
        _ => l + d,
    };
    let clamp = |v: i64| -> i64 {
        match bound {
            Some(b) => v.min(b as i64),
            None => v,
        }
    };
    match w {
        Whence::Start => {
            if o.anchor % 14 == 11 && extremes {
                SeekFrom::Start(u64::MAX - (o.delta as u8 as u64))
            } else {
                SeekFrom::Start(clamp(base.max(0)) as u64)
            }
        }
        Whence::Current => SeekFrom::Current(clamp(base)),
        Whence::End => SeekFrom::End(clamp(base)),
    }
}

pub fn render_seek(s: &SeekFrom) -> String {
    format!("{:?}", s)
}

/// Run a read script on a real handle against a Cursor over `content`.
/// Returns (number of ops executed, whether a seek landed outside [0,len) and was followed by a read).
pub fn run_read_script(
    handle: &mut (dyn ReadSeek + '_),
    content: &[u8],
    script: &[ROp],
    extremes: bool,
    trace: &mut Vec<String>,
) -> Result<bool, String> {
    let mut model = Cursor::new(content);
    let len = content.len() as u64;
    let mut outside = false;
    let mut nontrivial = false;
    let mut many_reads = false;
    for op in script {
        match op {
            ROp::Seek(w, o) => {
                let sf = seek_from(w, o, len, extremes, None);
                let m = model.seek(sf);
                let r = handle.seek(sf);
                trace.push(format!("seek({:?}) -> {:?} (model {:?})", sf, r.as_ref().map_err(|e| e.kind()), m.as_ref().map_err(|e| e.kind())));
                match (&r, &m) {
                    (Ok(a), Ok(b)) => {
                        if a != b {
                            return Err(format!("seek({:?}) returned {} but a cursor over the same bytes returns {}", sf, a, b));
                        }
                        if !matches!(sf, SeekFrom::Start(_)) && (*a >= len) {
                            outside = true;
                        }
                    }
                    (Err(_), Err(_)) => {
                        if !matches!(sf, SeekFrom::Start(_)) {
                            outside = true;
                        }
                    }
                    (Ok(a), Err(_)) => return Err(format!("seek({:?}) before the start (or overflowing) succeeded with position {}", sf, a)),
                    (Err(e), Ok(b)) => return Err(format!("seek({:?}) failed ({}) but is valid (cursor position {})", sf, e, b)),
                }
            }
            ROp::ReadToEnd(prefill) => {
                let pos = model.position();
                // the destination may already hold bytes: read_to_end appends and returns the count appended
                let k = [0usize, 0, 1, 7][(*prefill % 4) as usize];
                let mut got = vec![0xEEu8; k];
                let r = handle.read_to_end(&mut got);
                trace.push(format!("read_to_end (destination already holds {} bytes) at {} -> {:?}", k, pos, r.as_ref().map_err(|e| e.kind())));
                let mut expect = vec![];
                model.read_to_end(&mut expect).unwrap();
                match r {
                    Err(e) => return Err(format!("read_to_end at position {} failed: {}", pos, e)),
                    Ok(n) => {
                        if got.len() < k || got[..k].iter().any(|b| *b != 0xEE) {
                            return Err(format!("read_to_end at position {} clobbered the {} bytes already in the destination", pos, k));
                        }
                        if n != got.len() - k || got[k..] != expect[..] {
                            return Err(format!("read_to_end at position {} of {} into a vector holding {} bytes returned {} and appended {} bytes; a cursor appends and returns the remaining {}", pos, len, k, n, got.len() - k, expect.len()));
                        }
                    }
                }
                if outside {
                    nontrivial = true;
                }
            }
            ROp::Drain(k) => {
                let pos = model.position();
                let mut expect = vec![];
                model.read_to_end(&mut expect).unwrap();
                let piece = drain_piece(*k, expect.len() as u64);
                let mut got = vec![];
                let mut calls = 0u32;
                let mut buf = [0u8; 2048];
                loop {
                    calls += 1;
                    if calls as usize > expect.len() / piece + 16 {
                        return Err(format!("reading to the end in pieces of {} from position {}: still delivering after {} calls although only {} bytes remain", piece, pos, calls, expect.len()));
                    }
                    match handle.read(&mut buf[..piece]) {
                        Ok(0) => break,
                        Ok(n) if n > piece => return Err(format!("read into {} bytes returned {}", piece, n)),
                        Ok(n) => got.extend_from_slice(&buf[..n]),
                        Err(e) => return Err(format!("read #{} of {} bytes (draining from position {}) failed: {}", calls, piece, pos, e)),
                    }
                }
                trace.push(format!("drain in pieces of {} from {} -> {} bytes in {} calls", piece, pos, got.len(), calls));
                if got != expect {
                    let at = got.iter().zip(expect.iter()).position(|(a, b)| a != b).unwrap_or(got.len().min(expect.len()));
                    return Err(format!("reading to the end in pieces of {} from position {} of {}: {} bytes delivered, {} expected; first difference at offset {} (call #{})", piece, pos, len, got.len(), expect.len(), at, at / piece + 1));
                }
                if calls >= 160 {
                    many_reads = true;
                }
            }
            ROp::ReadExact(k, n) => {
                let want = read_size(*k, *n, content.len()).min(70_000);
                let pos = model.position();
                let mut a = vec![0u8; want];
                let mut b = vec![0u8; want];
                let rm = model.read_exact(&mut b);
                let rh = handle.read_exact(&mut a);
                trace.push(format!("read_exact({}) at {} -> {:?} (model {:?})", want, pos, rh.as_ref().map_err(|e| e.kind()), rm.as_ref().map_err(|e| e.kind())));
                match (rh, rm) {
                    (Ok(()), Ok(())) => {
                        if a != b {
                            return Err(format!("read_exact({}) at position {} returned wrong bytes", want, pos));
                        }
                    }
                    (Err(_), Err(_)) => {
                        // position after a failed read_exact is unspecified: re-synchronise both
                        let _ = model.seek(SeekFrom::Start(pos));
                        if handle.seek(SeekFrom::Start(pos)).is_err() {
                            return Err(format!("seek(Start({})) failed after a failed read_exact", pos));
                        }
                    }
                    (Ok(()), Err(_)) => return Err(format!("read_exact({}) at position {} of {} succeeded although fewer bytes remain", want, pos, len)),
                    (Err(e), Ok(())) => return Err(format!("read_exact({}) at position {} of {} failed ({}) although enough bytes remain", want, pos, len, e)),
                }
            }
            ROp::Read(k, n) => {
                let want = read_size(*k, *n, content.len());
                let mut buf = vec![0xAAu8; want];
                let pos = model.position();
                let remaining = len.saturating_sub(pos) as usize;
                let r = handle.read(&mut buf);
                trace.push(format!("read({}) at {} -> {:?}", want, pos, r.as_ref().map_err(|e| e.kind())));
                match r {
                    Err(e) => return Err(format!("read({}) at position {} failed: {}", want, pos, e)),
                    Ok(got) => {
                        if got > want.min(remaining) {
                            return Err(format!("read({}) at position {} of {} returned {} bytes (more than available)", want, pos, len, got));
                        }
                        if got == 0 && want > 0 && remaining > 0 {
                            return Err(format!("read({}) at position {} of {} returned 0 although {} bytes remain", want, pos, len, remaining));
                        }
                        let p = pos as usize;
                        if got > 0 && buf[..got] != content[p..p + got] {
                            return Err(format!("read({}) at position {} returned wrong bytes", want, pos));
                        }
                        model.set_position(pos + got as u64);
                        if outside {
                            nontrivial = true;
                        }
                    }
                }
            }
        }
    }
    let _ = many_reads;
    Ok(nontrivial)
}

pub trait ReadSeek: Read + Seek {}
impl<T: Read + Seek + ?Sized> ReadSeek for T {}
pub trait WriteSeek: Write + Seek {}
impl<T: Write + Seek + ?Sized> WriteSeek for T {}

/// Write-seek positions are bounded (memory, not logic: a cursor zero-fills up to the position)
pub const WRITE_SEEK_BOUND: u64 = 20 << 20;

/// Apply a write script to a real handle and to a Cursor<Vec<u8>> model.
/// `check_visible(model_bytes)` is called after every Flush (the handle is still open).
pub fn run_write_script(
    handle: &mut (dyn WriteSeek + '_),
    model: &mut Cursor<Vec<u8>>,
    script: &[WOp],
    allow_seek: bool,
    trace: &mut Vec<String>,
    check_visible: &mut dyn FnMut(&[u8]) -> Result<(), String>,
) -> Result<bool, String> {
    let mut interesting = false;
    for op in script {
        match op {
            WOp::Write(d) => {
                let bytes = make_bytes(d);
                if bytes.is_empty() {
                    // whether an empty write past the end zero-fills is not specified by Write
                    // (Cursor<Vec<u8>>::write_all pads, File does not): not generated
                    continue;
                }
                let pos = model.position();
                let r = handle.write_all(&bytes);
                trace.push(format!("write({} bytes) at {} -> {:?}", bytes.len(), pos, r.as_ref().map_err(|e| e.kind())));
                if let Err(e) = r {
                    return Err(format!("write of {} bytes at {} failed: {}", bytes.len(), pos, e));
                }
                model.write_all(&bytes).unwrap();
            }
            WOp::Seek(w, o) => {
                if !allow_seek {
                    continue;
                }
                let len = model.get_ref().len() as u64;
                let sf = seek_from(w, o, len, false, Some(WRITE_SEEK_BOUND));
                // keep absolute targets bounded
                let before = model.position();
                let m = model.seek(sf);
                if let Ok(p) = m {
                    if p > WRITE_SEEK_BOUND {
                        model.set_position(before);
                        continue;
                    }
                }
                let r = handle.seek(sf);
                trace.push(format!("seek({:?}) -> {:?} (model {:?})", sf, r.as_ref().map_err(|e| e.kind()), m.as_ref().map_err(|e| e.kind())));
                match (&r, &m) {
                    (Ok(a), Ok(b)) => {
                        if a != b {
                            return Err(format!("write handle seek({:?}) returned {} but a cursor returns {}", sf, a, b));
                        }
                        interesting = true;
                    }
                    (Err(_), Err(_)) => {}
                    (Ok(a), Err(_)) => return Err(format!("write handle seek({:?}) before the start succeeded with {}", sf, a)),
                    (Err(e), Ok(_)) => return Err(format!("write handle seek({:?}) failed: {}", sf, e)),
                }
                // one seek in four is followed by an excursion to the ends of the offset range and
                // back: seeking allocates nothing, so the arithmetic near u64::MAX / i64::MAX can be
                // compared with the cursor without writing there
                if o.anchor >= 192 {
                    let home = model.position();
                    let k = (o.anchor % 8) as u64;
                    let far = match o.delta as u8 % 6 {
                        0 => SeekFrom::Start(u64::MAX - k),
                        1 => SeekFrom::Current(i64::MAX),
                        2 => SeekFrom::End(i64::MAX - k as i64),
                        3 => SeekFrom::Current(i64::MIN),
                        4 => SeekFrom::End(i64::MIN),
                        _ => SeekFrom::Start(i64::MAX as u64 - k),
                    };
                    let second = match (o.delta as u8 / 6) % 4 {
                        0 => SeekFrom::Current(8),
                        1 => SeekFrom::Current(i64::MAX),
                        2 => SeekFrom::End(i64::MAX),
                        _ => SeekFrom::Current(-3),
                    };
                    for sf in [far, second] {
                        let at_pos = model.position();
                        let m = model.seek(sf);
                        let r = handle.seek(sf);
                        trace.push(format!("far seek({:?}) -> {:?} (model {:?})", sf, r.as_ref().map_err(|e| e.kind()), m.as_ref().map_err(|e| e.kind())));
                        match (&r, &m) {
                            (Ok(a), Ok(b)) if a == b => interesting = true,
                            (Ok(a), Ok(b)) => return Err(format!("write handle seek({:?}) from position {} returned {} but a cursor returns {}", sf, at_pos, a, b)),
                            (Err(_), Err(_)) => {}
                            (Ok(a), Err(_)) => return Err(format!("write handle seek({:?}) from position {} succeeded with {} where the target is negative or overflows (a cursor fails and stays)", sf, at_pos, a)),
                            // offsets beyond what the host's files support may be refused by an OS-backed handle
                            (Err(_), Ok(b)) if *b > (1u64 << 40) => model.set_position(at_pos),
                            (Err(e), Ok(b)) => return Err(format!("write handle seek({:?}) from position {} failed ({}) but a cursor moves to {}", sf, at_pos, e, b)),
                        }
                    }
                    model.set_position(home);
                    match handle.seek(SeekFrom::Start(home)) {
                        Ok(p) if p == home => {}
                        other => return Err(format!("write handle seek(Start({})) after an excursion to the end of the offset range gives {:?}", home, other.map_err(|e| e.kind()))),
                    }
                }
            }
            WOp::Flush => {
                let r = handle.flush();
                trace.push(format!("flush -> {:?}", r.as_ref().map_err(|e| e.kind())));
                if let Err(e) = r {
                    return Err(format!("flush failed: {}", e));
                }
                check_visible(model.get_ref())?;
            }
        }
    }
    Ok(interesting)
}

// JSON helpers for replay files ---------------------------------------------------------------

fn whence_json(w: &Whence) -> &'static str {
    match w {
        Whence::Start => "start",
        Whence::Current => "current",
        Whence::End => "end",
    }
}
fn whence_from(s: &str) -> Whence {
    match s {
        "start" => Whence::Start,
        "current" => Whence::Current,
        _ => Whence::End,
    }
}

pub fn rops_to_json(s: &[ROp]) -> Value {
    Value::Array(
        s.iter()
            .map(|o| match o {
                ROp::Read(k, n) => json!(["read", k, n]),
                ROp::Seek(w, o) => json!(["seek", whence_json(w), o.anchor, o.delta]),
                ROp::ReadToEnd(k) => json!(["read_to_end", k]),
                ROp::ReadExact(k, n) => json!(["read_exact", k, n]),
                ROp::Drain(k) => json!(["drain", k]),
            })
            .collect(),
    )
}
pub fn rops_from_json(v: &Value) -> Vec<ROp> {
    v.as_array()
        .map(|a| {
            a.iter()
                .filter_map(|x| {
                    let x = x.as_array()?;
                    match x.first()?.as_str()? {
                        "read" => Some(ROp::Read(x.get(1)?.as_u64()? as u8, x.get(2)?.as_u64()? as u16)),
                        "read_to_end" => Some(ROp::ReadToEnd(x.get(1).and_then(|y| y.as_u64()).unwrap_or(0) as u8)),
                        "read_exact" => Some(ROp::ReadExact(x.get(1)?.as_u64()? as u8, x.get(2)?.as_u64()? as u16)),
                        "drain" => Some(ROp::Drain(x.get(1)?.as_u64()? as u8)),
                        _ => Some(ROp::Seek(
                            whence_from(x.get(1)?.as_str()?),
                            Off { anchor: x.get(2)?.as_u64()? as u8, delta: x.get(3)?.as_i64()? as i8 },
                        )),
                    }
                })
                .collect()
        })
        .unwrap_or_default()
}
pub fn wops_to_json(s: &[WOp]) -> Value {
    Value::Array(
        s.iter()
            .map(|o| match o {
                WOp::Write(d) => json!(["write", d.kind, d.len, d.seed]),
                WOp::Seek(w, o) => json!(["seek", whence_json(w), o.anchor, o.delta]),
                WOp::Flush => json!(["flush"]),
            })
            .collect(),
    )
}
pub fn wops_from_json(v: &Value) -> Vec<WOp> {
    v.as_array()
        .map(|a| {
            a.iter()
                .filter_map(|x| {
                    let x = x.as_array()?;
                    match x.first()?.as_str()? {
                        "write" => Some(WOp::Write(DataSpec {
                            kind: x.get(1)?.as_u64()? as u8,
                            len: x.get(2)?.as_u64()? as u16,
                            seed: x.get(3)?.as_u64()? as u8,
                        })),
                        "flush" => Some(WOp::Flush),
                        _ => Some(WOp::Seek(
                            whence_from(x.get(1)?.as_str()?),
                            Off { anchor: x.get(2)?.as_u64()? as u8, delta: x.get(3)?.as_i64()? as i8 },
                        )),
                    }
                })
                .collect()
        })
        .unwrap_or_default()
}
