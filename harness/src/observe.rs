//! Full observable snapshot of a filesystem through the public path API, universe probing,
//! and the model-free consistency relations (C03 well-formedness, C05 observer agreement).

use crate::exec::at;
use crate::model::*;
use crate::util::guarded;
use std::collections::{BTreeMap, BTreeSet};
use std::io::Read;
use std::sync::Arc;
use vfs::{VfsFileType, VfsPath};

#[derive(Clone, Debug, Default, PartialEq)]
pub struct Snap {
    /// everything reachable from the root by read_dir, with type (metadata) and bytes (read)
    pub tree: Tree,
    /// inconsistencies noticed while walking (listing vs metadata vs read), universe mismatches
    pub problems: Vec<String>,
}

/// All paths over `pool` up to `depth` (canonical), root excluded.
pub fn universe(pool: &[String], depth: usize) -> Vec<String> {
    let mut out = Vec::new();
    let mut level = vec![String::new()];
    for _ in 0..depth {
        let mut next = Vec::new();
        for base in &level {
            for n in pool {
                let p = format!("{}/{}", base, n);
                out.push(p.clone());
                next.push(p);
            }
        }
        level = next;
    }
    out
}

fn read_all(p: &VfsPath) -> Result<Vec<u8>, String> {
    let mut f = p.open_file().map_err(|e| format!("open_file: {}", e))?;
    let mut v = Vec::new();
    f.read_to_end(&mut v).map_err(|e| format!("read: {}", e))?;
    Ok(v)
}

/// Breadth-first snapshot. Never panics (panics are turned into problems).
pub fn snapshot(root: &VfsPath) -> Snap {
    match guarded(|| snapshot_inner(root)) {
        Ok(s) => s,
        Err(m) => Snap { tree: Tree::new(), problems: vec![format!("PANIC during snapshot: {}", m)] },
    }
}

fn snapshot_inner(root: &VfsPath) -> Snap {
    let mut snap = Snap { tree: Tree::new(), problems: vec![] };
    match root.metadata() {
        Ok(m) if m.file_type == VfsFileType::Directory => {}
        Ok(_) => snap.problems.push("root is not a directory".into()),
        Err(e) => snap.problems.push(format!("root metadata failed: {}", e)),
    }
    let mut queue = vec![String::new()];
    let mut guard = 0usize;
    while let Some(d) = queue.pop() {
        guard += 1;
        if guard > 20_000 {
            snap.problems.push("snapshot aborted: more than 20000 directories".into());
            break;
        }
        let dp = match at(root, &d) {
            Ok(p) => p,
            Err(e) => {
                snap.problems.push(format!("join('{}') failed: {}", d, e));
                continue;
            }
        };
        let it = match dp.read_dir() {
            Ok(it) => it,
            Err(e) => {
                snap.problems.push(format!("read_dir('{}') failed on a listed directory: {}", d, e));
                continue;
            }
        };
        let prefix = format!("{}/", d);
        let mut seen = BTreeSet::new();
        for c in it {
            let cs = c.as_str().to_string();
            if !cs.starts_with(&prefix) || cs[prefix.len()..].contains('/') || cs.len() == prefix.len() {
                snap.problems.push(format!("read_dir('{}') yielded non-child '{}'", d, cs));
                continue;
            }
            if !seen.insert(cs.clone()) {
                snap.problems.push(format!("read_dir('{}') listed '{}' twice", d, cs));
                continue;
            }
            match c.metadata() {
                Ok(m) => {
                    if m.file_type == VfsFileType::Directory {
                        if m.len != 0 {
                            snap.problems.push(format!("directory '{}' reports len {}", cs, m.len));
                        }
                        snap.tree.m.insert(cs.clone(), Node::Dir);
                        queue.push(cs);
                    } else {
                        match read_all(&c) {
                            Ok(bytes) => {
                                if bytes.len() as u64 != m.len {
                                    snap.problems.push(format!(
                                        "file '{}': metadata len {} but {} bytes read",
                                        cs,
                                        m.len,
                                        bytes.len()
                                    ));
                                }
                                snap.tree.m.insert(cs, Node::File(Arc::new(bytes)));
                            }
                            Err(e) => {
                                snap.problems.push(format!("listed file '{}' cannot be read: {}", cs, e));
                                snap.tree.m.insert(cs, Node::File(Arc::new(vec![])));
                            }
                        }
                    }
                }
                Err(e) => snap.problems.push(format!("listed entry '{}' has no metadata: {}", cs, e)),
            }
        }
    }
    snap
}

/// Probe exists/metadata on every universe path and compare with the reachable tree:
/// catches orphans (exist but unreachable) and ghosts (listed but non-existent).
pub fn probe_universe(root: &VfsPath, uni: &[String], snap: &mut Snap) {
    let r = guarded(|| {
        let mut problems = vec![];
        for u in uni {
            let p = match at(root, u) {
                Ok(p) => p,
                Err(e) => {
                    problems.push(format!("join('{}') failed: {}", u, e));
                    continue;
                }
            };
            let ex = p.exists();
            let md = p.metadata();
            let in_tree = snap.tree.get(u).cloned();
            match ex {
                Ok(b) => {
                    if b != in_tree.is_some() {
                        problems.push(format!(
                            "exists('{}') = {} but the path is {} from the root via read_dir",
                            u,
                            b,
                            if in_tree.is_some() { "reachable" } else { "NOT reachable" }
                        ));
                    }
                    if b != md.is_ok() {
                        problems.push(format!(
                            "exists('{}') = {} but metadata is {}",
                            u,
                            b,
                            if md.is_ok() { "Ok" } else { "Err" }
                        ));
                    }
                }
                Err(e) => problems.push(format!("exists('{}') failed: {}", u, e)),
            }
            if let (Ok(m), Some(n)) = (&md, &in_tree) {
                let isd = m.file_type == VfsFileType::Directory;
                if isd != n.is_dir() {
                    problems.push(format!("metadata('{}') type disagrees with the listing walk", u));
                }
            }
        }
        problems
    });
    match r {
        Ok(mut p) => snap.problems.append(&mut p),
        Err(m) => snap.problems.push(format!("PANIC during universe probe: {}", m)),
    }
}

pub fn full_snapshot(root: &VfsPath, uni: &[String]) -> Snap {
    let mut s = snapshot(root);
    probe_universe(root, uni, &mut s);
    s
}

/// Describe the difference between two trees (first few entries).
pub fn diff_trees(expected: &Tree, got: &Tree) -> Vec<String> {
    let mut out = vec![];
    for (k, v) in &expected.m {
        match got.m.get(k) {
            None => out.push(format!("missing '{}' ({})", k, kind_str(v))),
            Some(g) if g != v => out.push(format!(
                "'{}' expected {} but found {}",
                k,
                node_str(v),
                node_str(g)
            )),
            _ => {}
        }
    }
    for (k, v) in &got.m {
        if !expected.m.contains_key(k) {
            out.push(format!("unexpected '{}' ({})", k, node_str(v)));
        }
    }
    out.truncate(8);
    out
}

fn kind_str(n: &Node) -> &'static str {
    if n.is_dir() {
        "dir"
    } else {
        "file"
    }
}
fn node_str(n: &Node) -> String {
    match n {
        Node::Dir => "dir".into(),
        Node::File(b) => format!("file {}", crate::util::show_bytes(b)),
    }
}

// ---------------------------------------------------------------------------------------------
// C03: well-formedness of the real namespace, evaluated over the whole universe
// ---------------------------------------------------------------------------------------------

pub struct WfReport {
    pub problems: Vec<String>,
    /// paths observed to exist (through exists()) with their observed type
    pub existing: BTreeMap<String, bool>,
}

/// root is an existing directory; exists(p) => parent(p) is a directory; every existing p is
/// reachable through read_dir from the root (and walk_dir(root) yields it).
pub fn well_formed(root: &VfsPath, uni: &[String]) -> WfReport {
    let r = guarded(|| {
        let mut problems = vec![];
        let mut existing: BTreeMap<String, bool> = BTreeMap::new();
        match (root.exists(), root.is_dir()) {
            (Ok(true), Ok(true)) => {}
            (a, b) => problems.push(format!(
                "root: exists={:?} is_dir={:?}",
                a.map_err(|e| e.to_string()),
                b.map_err(|e| e.to_string())
            )),
        }
        let snap = snapshot(root);
        for (k, n) in &snap.tree.m {
            existing.insert(k.clone(), n.is_dir());
        }
        for p in &snap.problems {
            if p.starts_with("PANIC") || p.contains("failed on a listed directory") || p.contains("has no metadata") || p.contains("cannot be read") {
                problems.push(format!("listing walk: {}", p));
            }
        }
        for u in uni {
            let p = match at(root, u) {
                Ok(p) => p,
                Err(_) => continue,
            };
            let ex = matches!(p.exists(), Ok(true));
            if !ex {
                continue;
            }
            let isd = matches!(p.is_dir(), Ok(true));
            existing.entry(u.clone()).or_insert(isd);
            let par = parent_of(u);
            let parp = at(root, &par).unwrap();
            let par_ex = matches!(parp.exists(), Ok(true));
            let par_dir = matches!(parp.is_dir(), Ok(true));
            if !par_ex {
                problems.push(format!("ORPHAN: '{}' exists but its parent '{}' does not", u, par));
            } else if !par_dir {
                problems.push(format!("ORPHAN: '{}' exists but its parent '{}' is not a directory", u, par));
            }
            if !snap.tree.exists(u) {
                problems.push(format!("UNREACHABLE: '{}' exists but is not reachable from the root through directory listings", u));
            }
        }
        // walk_dir from the root agrees with the listing walk
        match root.walk_dir() {
            Ok(it) => {
                let mut walked = BTreeSet::new();
                let mut ok = true;
                for item in it {
                    match item {
                        Ok(p) => {
                            walked.insert(p.as_str().to_string());
                        }
                        Err(e) => {
                            problems.push(format!("walk_dir(root) yielded an error in a quiescent state: {}", e));
                            ok = false;
                            break;
                        }
                    }
                }
                if ok {
                    let listed: BTreeSet<String> =
                        snap.tree.m.keys().filter(|k| !k.is_empty()).cloned().collect();
                    if walked != listed {
                        let only_w: Vec<_> = walked.difference(&listed).take(3).collect();
                        let only_l: Vec<_> = listed.difference(&walked).take(3).collect();
                        problems.push(format!(
                            "walk_dir(root) and recursive read_dir disagree: only walked {:?}, only listed {:?}",
                            only_w, only_l
                        ));
                    }
                }
            }
            Err(e) => problems.push(format!("walk_dir(root) failed: {}", e)),
        }
        WfReport { problems, existing }
    });
    match r {
        Ok(r) => r,
        Err(m) => WfReport { problems: vec![format!("PANIC during well-formedness probe: {}", m)], existing: BTreeMap::new() },
    }
}

// ---------------------------------------------------------------------------------------------
// C05: observers tell one consistent story (no model involved)
// ---------------------------------------------------------------------------------------------

#[derive(Default)]
pub struct ObsStats {
    pub paths_probed: u64,
    pub absent_probed: u64,
    pub below_file_probed: u64,
    pub dirs_walked: u64,
}

pub fn observers_agree(root: &VfsPath, uni: &[String], stats: &mut ObsStats) -> Vec<String> {
    let r = guarded(|| {
        let mut problems = vec![];
        let mut paths: Vec<String> = vec![String::new()];
        paths.extend(uni.iter().cloned());
        // state as told by exists/metadata
        let mut typ: BTreeMap<String, Option<bool>> = BTreeMap::new(); // Some(true)=dir
        for u in &paths {
            stats.paths_probed += 1;
            let p = match at(root, u) {
                Ok(p) => p,
                Err(e) => {
                    problems.push(format!("join('{}') failed: {}", u, e));
                    continue;
                }
            };
            let ex = p.exists();
            let md = p.metadata();
            let isf = p.is_file();
            let isd = p.is_dir();
            let (ex, isf, isd) = match (ex, isf, isd) {
                (Ok(a), Ok(b), Ok(c)) => (a, b, c),
                (a, b, c) => {
                    problems.push(format!(
                        "'{}': exists/is_file/is_dir returned an error: {:?} {:?} {:?}",
                        u,
                        a.map_err(|e| e.to_string()),
                        b.map_err(|e| e.to_string()),
                        c.map_err(|e| e.to_string())
                    ));
                    continue;
                }
            };
            if ex != md.is_ok() {
                problems.push(format!("'{}': exists={} but metadata is {}", u, ex, if md.is_ok() { "Ok" } else { "Err" }));
            }
            if let Ok(m) = &md {
                let d = m.file_type == VfsFileType::Directory;
                if isd != d || isf != !d {
                    problems.push(format!("'{}': metadata says dir={} but is_dir={} is_file={}", u, d, isd, isf));
                }
                if d && m.len != 0 {
                    problems.push(format!("'{}': directory reports len {}", u, m.len));
                }
            } else if isf || isd {
                problems.push(format!("'{}': no metadata but is_file={} is_dir={}", u, isf, isd));
            }
            if !ex {
                stats.absent_probed += 1;
            }
            typ.insert(u.clone(), if ex { Some(isd) } else { None });
        }
        for u in &paths {
            let Some(t) = typ.get(u) else { continue };
            let p = at(root, u).unwrap();
            // directory iff it can be listed
            let listing = p.read_dir();
            let is_dir = *t == Some(true);
            let is_file = *t == Some(false);
            match listing {
                Ok(it) => {
                    if !is_dir {
                        problems.push(format!("'{}' is not a directory but read_dir succeeds", u));
                    }
                    let prefix = format!("{}/", u);
                    let mut seen = BTreeSet::new();
                    for c in it {
                        let cs = c.as_str().to_string();
                        let bare = cs.starts_with(&prefix) && !cs[prefix.len()..].contains('/') && cs.len() > prefix.len();
                        if !bare {
                            problems.push(format!("read_dir('{}') yielded '{}' which is not a bare child", u, cs));
                            continue;
                        }
                        if !seen.insert(cs.clone()) {
                            problems.push(format!("read_dir('{}') lists '{}' more than once", u, cs));
                        }
                        if !matches!(c.exists(), Ok(true)) {
                            problems.push(format!("read_dir('{}') lists '{}' which does not exist", u, cs));
                        }
                    }
                    // the listing is an Iterator: every way of consuming it gives the same names
                    if let Err(m) = crate::util::listing_iterator_contract(&|| p.read_dir().ok().map(|i| Box::new(i.map(|c| c.as_str().to_string())) as Box<dyn Iterator<Item = String>>)) {
                        problems.push(format!("read_dir('{}'): {}", u, m));
                    }
                    // every existing universe child is listed
                    for (k, v) in typ.range(prefix.clone()..) {
                        if !k.starts_with(&prefix) {
                            break;
                        }
                        if k[prefix.len()..].contains('/') {
                            continue;
                        }
                        if v.is_some() && !seen.contains(k) {
                            problems.push(format!("'{}' exists but read_dir('{}') does not list it", k, u));
                        }
                        if v.is_none() && seen.contains(k) {
                            problems.push(format!("'{}' does not exist but read_dir('{}') lists it", k, u));
                        }
                    }
                }
                Err(_) => {
                    if is_dir {
                        problems.push(format!("'{}' is a directory but read_dir fails", u));
                    }
                }
            }
            // file iff it can be read
            let readable = read_all(&p);
            match (&readable, is_file) {
                (Ok(_), false) => problems.push(format!("'{}' is not a file but a read session succeeds", u)),
                (Err(e), true) => problems.push(format!("'{}' is a file but cannot be read: {}", u, e)),
                _ => {}
            }
            if let (Ok(b), Ok(m)) = (&readable, p.metadata()) {
                if m.len != b.len() as u64 {
                    problems.push(format!("'{}': metadata len {} but {} bytes read", u, m.len, b.len()));
                }
            }
            // parent lists the name exactly once <=> exists (non-root)
            if !u.is_empty() {
                let par = parent_of(u);
                let par_is_file = typ.get(&par).map(|t| *t == Some(false)).unwrap_or(false);
                if par_is_file {
                    stats.below_file_probed += 1;
                }
                let listed = match at(root, &par).unwrap().read_dir() {
                    Ok(it) => it.filter(|c| c.as_str() == u).count(),
                    Err(_) => 0,
                };
                let ex = t.is_some();
                if ex && listed != 1 {
                    problems.push(format!("'{}' exists but its parent lists it {} times", u, listed));
                }
                if !ex && listed != 0 {
                    problems.push(format!("'{}' does not exist but its parent lists it {} times", u, listed));
                }
            }
            // walk_dir: every descendant exactly once, directories before their content
            if is_dir {
                stats.dirs_walked += 1;
                match p.walk_dir() {
                    Ok(it) => {
                        let mut items = vec![];
                        let mut failed = false;
                        for item in it {
                            match item {
                                Ok(x) => items.push(x.as_str().to_string()),
                                Err(e) => {
                                    problems.push(format!("walk_dir('{}') yielded an error in a quiescent state: {}", u, e));
                                    failed = true;
                                    break;
                                }
                            }
                        }
                        if !failed {
                            if let Err(e) = crate::exec::walk_order_ok(&items) {
                                problems.push(format!("walk_dir('{}'): {}", u, e));
                            }
                            // expected: recursive read_dir
                            let mut expect = BTreeSet::new();
                            let mut stack = vec![u.clone()];
                            while let Some(d) = stack.pop() {
                                if let Ok(it) = at(root, &d).unwrap().read_dir() {
                                    for c in it {
                                        let cs = c.as_str().to_string();
                                        if matches!(c.is_dir(), Ok(true)) {
                                            stack.push(cs.clone());
                                        }
                                        expect.insert(cs);
                                    }
                                }
                            }
                            let got: BTreeSet<String> = items.iter().cloned().collect();
                            if got != expect {
                                problems.push(format!(
                                    "walk_dir('{}') yields {:?} but recursive read_dir gives {:?}",
                                    u,
                                    got.symmetric_difference(&expect).take(4).collect::<Vec<_>>(),
                                    expect.len()
                                ));
                            }
                            for it in &items {
                                if !is_within(it, u) || it == u {
                                    problems.push(format!("walk_dir('{}') yielded '{}' which is not a descendant", u, it));
                                }
                            }
                        }
                    }
                    Err(e) => problems.push(format!("walk_dir('{}') failed on a directory: {}", u, e)),
                }
            } else if p.walk_dir().is_ok() {
                problems.push(format!("'{}' is not a directory but walk_dir succeeds", u));
            }
        }
        problems
    });
    match r {
        Ok(p) => p,
        Err(m) => vec![format!("PANIC while observing: {}", m)],
    }
}
