//! Backend-stack descriptions and builders.

use crate::exec::at;
use crate::model::*;
use crate::util::Scratch;
use std::io::Write;
use std::sync::Arc;
use crate::wrap::SharedFS;
use vfs::{AltrootFS, FileSystem, MemoryFS, OverlayFS, PhysicalFS, VfsPath};

/// Distinctive directory names used for altroot prefixes, so that a leaked inner path is
/// recognisable in error messages (C12).
pub const ALT_NAMES: [&str; 3] = ["zALTROOTz", "zALT2z", "zALT3z"];

#[derive(Clone, Debug, PartialEq)]
pub enum Cfg {
    Mem,
    Phys,
    /// the read-only EmbeddedFS over /verif/fixture_embed (only generated as a LOWER overlay layer)
    Emb,
    /// altroot at depth `usize` (0 = underlying root) of the inner stack
    Alt(Box<Cfg>, usize),
    /// overlay over layers (first = upper)
    Ovl(Vec<Cfg>),
    /// overlay whose `usize` layers are sibling sub-directories of ONE shared filesystem
    OvlSub(Box<Cfg>, usize),
}

pub const LAYER_DIRS: [&str; 4] = ["zLAYER0", "zLAYER1", "zLAYER2", "zLAYER3"];

impl Cfg {
    pub fn render(&self) -> String {
        match self {
            Cfg::Mem => "Mem".into(),
            Cfg::Phys => "Phys".into(),
            Cfg::Emb => "Embedded".into(),
            Cfg::Alt(inner, d) => format!("Alt{}({})", d, inner.render()),
            Cfg::Ovl(ls) => format!("Ovl[{}]", ls.iter().map(|l| l.render()).collect::<Vec<_>>().join(", ")),
            Cfg::OvlSub(inner, n) => format!("OvlSub{}({})", n, inner.render()),
        }
    }
    /// coarse shape label for coverage statistics
    pub fn shape(&self) -> String {
        match self {
            Cfg::Mem => "mem".into(),
            Cfg::Phys => "phys".into(),
            Cfg::Emb => "emb".into(),
            Cfg::Alt(inner, _) => format!("alt({})", inner.shape()),
            Cfg::Ovl(ls) => {
                let nested = ls.iter().any(|l| !matches!(l, Cfg::Mem | Cfg::Phys | Cfg::Emb));
                format!("ovl{}{}", ls.len(), if nested { "+nested" } else { "" })
            }
            Cfg::OvlSub(inner, n) => format!("ovlsub{}({})", n, inner.shape()),
        }
    }
    pub fn top(&self) -> &'static str {
        match self {
            Cfg::Mem => "mem",
            Cfg::Phys => "phys",
            Cfg::Emb => "embedded",
            Cfg::Alt(..) => "altroot",
            Cfg::Ovl(..) | Cfg::OvlSub(..) => "overlay",
        }
    }
    pub fn nesting(&self) -> usize {
        match self {
            Cfg::Mem | Cfg::Phys | Cfg::Emb => 0,
            Cfg::Alt(i, _) => 1 + i.nesting(),
            Cfg::Ovl(ls) => 1 + ls.iter().map(|l| l.nesting()).max().unwrap_or(0),
            Cfg::OvlSub(i, _) => 1 + i.nesting(),
        }
    }
    pub fn contains_overlay(&self) -> bool {
        match self {
            Cfg::Mem | Cfg::Phys | Cfg::Emb => false,
            Cfg::Alt(i, _) => i.contains_overlay(),
            Cfg::Ovl(_) | Cfg::OvlSub(..) => true,
        }
    }
    /// an overlay one of whose layers is (or contains) an overlay
    pub fn has_nested_overlay(&self) -> bool {
        match self {
            Cfg::Mem | Cfg::Phys | Cfg::Emb => false,
            Cfg::Alt(i, _) => i.has_nested_overlay(),
            Cfg::Ovl(ls) => ls.iter().any(|l| l.contains_overlay()),
            Cfg::OvlSub(i, _) => i.contains_overlay(),
        }
    }
    pub fn contains_phys(&self) -> bool {
        match self {
            Cfg::Mem | Cfg::Emb => false,
            Cfg::Phys => true,
            Cfg::Alt(i, _) => i.contains_phys(),
            Cfg::Ovl(ls) => ls.iter().any(|l| l.contains_phys()),
            Cfg::OvlSub(i, _) => i.contains_phys(),
        }
    }
    pub fn contains_alt(&self) -> bool {
        match self {
            Cfg::Mem | Cfg::Phys | Cfg::Emb => false,
            Cfg::Alt(..) => true,
            Cfg::Ovl(ls) => ls.iter().any(|l| l.contains_alt()),
            Cfg::OvlSub(i, _) => i.contains_alt(),
        }
    }
    /// number of top-level overlay layers (0 if the top is not an overlay or altroot over one)
    pub fn overlay_layers(&self) -> usize {
        match self {
            Cfg::Ovl(ls) => ls.len(),
            Cfg::OvlSub(_, n) => *n,
            Cfg::Alt(i, _) => i.overlay_layers(),
            _ => 0,
        }
    }
    pub fn to_json(&self) -> serde_json::Value {
        use serde_json::json;
        match self {
            Cfg::Mem => json!("mem"),
            Cfg::Phys => json!("phys"),
            Cfg::Emb => json!("emb"),
            Cfg::Alt(i, d) => json!({"alt": i.to_json(), "depth": d}),
            Cfg::Ovl(ls) => json!({"ovl": ls.iter().map(|l| l.to_json()).collect::<Vec<_>>()}),
            Cfg::OvlSub(i, n) => json!({"ovlsub": i.to_json(), "layers": n}),
        }
    }
    pub fn from_json(v: &serde_json::Value) -> Option<Cfg> {
        if let Some(s) = v.as_str() {
            return match s {
                "mem" => Some(Cfg::Mem),
                "phys" => Some(Cfg::Phys),
                "emb" => Some(Cfg::Emb),
                _ => None,
            };
        }
        if let Some(a) = v.get("alt") {
            return Some(Cfg::Alt(Box::new(Cfg::from_json(a)?), v.get("depth")?.as_u64()? as usize));
        }
        if let Some(o) = v.get("ovlsub") {
            return Some(Cfg::OvlSub(Box::new(Cfg::from_json(o)?), v.get("layers")?.as_u64()? as usize));
        }
        if let Some(o) = v.get("ovl") {
            let mut ls = vec![];
            for l in o.as_array()? {
                ls.push(Cfg::from_json(l)?);
            }
            return Some(Cfg::Ovl(ls));
        }
        None
    }
}

/// One built layer of an overlay: its own (un-wrapped) root, usable to inspect / pre-populate it
#[derive(Clone)]
pub struct BuiltLayer {
    pub root: VfsPath,
}

pub struct Built {
    pub root: VfsPath,
    /// for a top-level overlay (possibly behind altroots): the roots of its layers, upper first
    pub layers: Vec<VfsPath>,
    /// the underlying root and prefix if the top is an altroot
    pub alt_under: Option<(VfsPath, String)>,
    /// keeps scratch directories alive
    pub _scratch: Vec<Arc<Scratch>>,
}

/// Pre-population of a stack: a list of (layer index, path, node) written through the layer's
/// own root before the overlay is assembled. Layer index is relative to the *top-level* overlay;
/// for non-overlay stacks only index 0 is used and content is written through the final root.
pub type Prepop = Vec<(usize, String, Node)>;

pub fn write_entry(root: &VfsPath, p: &str, n: &Node) -> Result<(), String> {
    let vp = at(root, p).map_err(|e| e.to_string())?;
    match n {
        Node::Dir => vp.create_dir_all().map_err(|e| format!("prepop create_dir_all('{}'): {}", p, e)),
        Node::File(b) => {
            vp.parent().create_dir_all().map_err(|e| format!("prepop parent of '{}': {}", p, e))?;
            let mut f = vp.create_file().map_err(|e| format!("prepop create_file('{}'): {}", p, e))?;
            f.write_all(b).map_err(|e| format!("prepop write('{}'): {}", p, e))?;
            Ok(())
        }
    }
}

pub type FsArc = Arc<dyn FileSystem>;

pub fn plain_root(fs: &FsArc) -> VfsPath {
    VfsPath::new(SharedFS(fs.clone()))
}

/// Build the filesystem object for `cfg` (no pre-population, no wrappers).
pub fn build_fs(cfg: &Cfg, scratch: &mut Vec<Arc<Scratch>>) -> Result<FsArc, String> {
    build_fs_lw(cfg, scratch, &|fs| fs)
}

/// Same, with every leaf backend (MemoryFS / PhysicalFS) passed through `leafwrap`.
pub fn build_fs_lw(cfg: &Cfg, scratch: &mut Vec<Arc<Scratch>>, leafwrap: &dyn Fn(FsArc) -> FsArc) -> Result<FsArc, String> {
    match cfg {
        Cfg::Mem => Ok(leafwrap(Arc::new(MemoryFS::new()))),
        Cfg::Phys => {
            let s = Arc::new(Scratch::new("phys"));
            let rootdir = s.dir.join("jail").join("root");
            std::fs::create_dir_all(&rootdir).map_err(|e| e.to_string())?;
            // sentinel next to the root: confinement checks look at it
            let _ = std::fs::write(s.dir.join("jail").join("sentinel"), b"sentinel");
            scratch.push(s);
            Ok(leafwrap(Arc::new(PhysicalFS::new(rootdir))))
        }
        Cfg::Emb => Ok(leafwrap(Arc::new(vfs::EmbeddedFS::<crate::embed::Fixture>::new()))),
        Cfg::Alt(inner, depth) => {
            let under = plain_root(&build_fs_lw(inner, scratch, leafwrap)?);
            let mut p = under.clone();
            for i in 0..*depth {
                p = p.join(ALT_NAMES[i % ALT_NAMES.len()]).map_err(|e| e.to_string())?;
            }
            p.create_dir_all().map_err(|e| format!("altroot prefix: {}", e))?;
            Ok(Arc::new(AltrootFS::new(p)))
        }
        Cfg::Ovl(ls) => {
            let mut roots = vec![];
            for l in ls {
                roots.push(plain_root(&build_fs_lw(l, scratch, leafwrap)?));
            }
            Ok(Arc::new(OverlayFS::new(&roots)))
        }
        Cfg::OvlSub(inner, n) => {
            let shared = plain_root(&build_fs_lw(inner, scratch, leafwrap)?);
            let mut roots = vec![];
            for i in 0..(*n).clamp(1, 4) {
                let l = shared.join(LAYER_DIRS[i]).map_err(|e| e.to_string())?;
                l.create_dir_all().map_err(|e| format!("layer dir: {}", e))?;
                roots.push(l);
            }
            Ok(Arc::new(OverlayFS::new(&roots)))
        }
    }
}

/// Build a stack. `prepop` entries are written into the layers of the *outermost* overlay found
/// by descending through altroots (or through the final root if there is no overlay).
/// `wrap(layer_fs, index)` lets a caller interpose a wrapper around each top-level overlay layer
/// (or around the single core filesystem, index 0, if there is no overlay).
pub fn build_with(
    cfg: &Cfg,
    prepop: &Prepop,
    wrap: &dyn Fn(FsArc, usize) -> VfsPath,
) -> Result<Built, String> {
    build_full(cfg, prepop, wrap, &|fs| fs)
}

/// build_with plus a wrapper around every leaf backend
pub fn build_full(
    cfg: &Cfg,
    prepop: &Prepop,
    wrap: &dyn Fn(FsArc, usize) -> VfsPath,
    leafwrap: &dyn Fn(FsArc) -> FsArc,
) -> Result<Built, String> {
    let mut scratch = vec![];
    // descend through altroots to the outermost overlay
    let mut alts: Vec<usize> = vec![];
    let mut cur = cfg;
    while let Cfg::Alt(inner, d) = cur {
        alts.push(*d);
        cur = inner;
    }
    let (core_root, layers) = match cur {
        Cfg::Ovl(ls) => {
            let mut raw = vec![];
            for l in ls {
                raw.push(build_fs_lw(l, &mut scratch, leafwrap)?);
            }
            // visible path q of the final root = alt prefixes (innermost first) + q
            let mut prefix = String::new();
            for d in alts.iter().rev() {
                for i in 0..*d {
                    prefix.push('/');
                    prefix.push_str(ALT_NAMES[i % ALT_NAMES.len()]);
                }
            }
            let raw_roots: Vec<VfsPath> = raw.iter().map(plain_root).collect();
            let wrapped: Vec<VfsPath> = raw.iter().enumerate().map(|(i, r)| wrap(r.clone(), i)).collect();
            // An overlay keeps no state of its own: whether it is constructed before or after the
            // layers receive their content must not matter. Every other case constructs it FIRST.
            let early = prepop.len() % 2 == 1;
            let early_overlay = if early { Some(VfsPath::new(OverlayFS::new(&wrapped))) } else { None };
            for (li, p, n) in prepop {
                let li = *li % raw.len();
                // an embedded layer has its content already (see emb_prepop)
                if ls[li] == Cfg::Emb {
                    continue;
                }
                write_entry(&raw_roots[li], &format!("{}{}", prefix, p), n)?;
            }
            (early_overlay.unwrap_or_else(|| VfsPath::new(OverlayFS::new(&wrapped))), raw_roots)
        }
        Cfg::OvlSub(inner, n) => {
            let n = (*n).clamp(1, 4);
            let shared_fs = build_fs_lw(inner, &mut scratch, leafwrap)?;
            let shared_plain = plain_root(&shared_fs);
            let mut prefix = String::new();
            for d in alts.iter().rev() {
                for i in 0..*d {
                    prefix.push('/');
                    prefix.push_str(ALT_NAMES[i % ALT_NAMES.len()]);
                }
            }
            // the overlay itself sits on sub-paths of ONE (possibly wrapped) filesystem; in every
            // other case it is constructed BEFORE the layer directories exist (it has no state)
            let shared = wrap(shared_fs, usize::MAX);
            let mut layer_paths = vec![];
            for i in 0..n {
                layer_paths.push(shared.join(LAYER_DIRS[i]).map_err(|e| e.to_string())?);
            }
            // (mode 1: before every layer directory; 2: the upper directory is created afterwards,
            // the lower ones exist; 3: the lower directories are created afterwards)
            let mode = prepop.len() % 4;
            for i in 0..n {
                if (mode == 2 && i >= 1) || (mode == 3 && i == 0) {
                    shared_plain.join(LAYER_DIRS[i]).map_err(|e| e.to_string())?.create_dir_all().map_err(|e| format!("layer dir: {}", e))?;
                }
            }
            let early_overlay = if mode != 0 { Some(VfsPath::new(OverlayFS::new(&layer_paths))) } else { None };
            // clean per-layer views for inspection and pre-population
            let mut raw_roots = vec![];
            for i in 0..n {
                let l = shared_plain.join(LAYER_DIRS[i]).map_err(|e| e.to_string())?;
                l.create_dir_all().map_err(|e| format!("layer dir: {}", e))?;
                raw_roots.push(VfsPath::new(AltrootFS::new(l)));
            }
            for (li, p, node) in prepop {
                let li = *li % n;
                write_entry(&raw_roots[li], &format!("{}{}", prefix, p), node)?;
            }
            (early_overlay.unwrap_or_else(|| VfsPath::new(OverlayFS::new(&layer_paths))), raw_roots)
        }
        other => {
            let fs = build_fs_lw(other, &mut scratch, leafwrap)?;
            (wrap(fs, 0), vec![])
        }
    };
    // re-apply altroots inside-out
    let mut root = core_root;
    let mut alt_under = None;
    for d in alts.iter().rev() {
        let mut p = root.clone();
        for i in 0..*d {
            p = p.join(ALT_NAMES[i % ALT_NAMES.len()]).map_err(|e| e.to_string())?;
        }
        p.create_dir_all().map_err(|e| format!("altroot prefix: {}", e))?;
        alt_under = Some((root.clone(), p.as_str().to_string()));
        root = VfsPath::new(AltrootFS::new(p));
    }
    if layers.is_empty() {
        for (_, p, n) in prepop {
            write_entry(&root, p, n)?;
        }
    }
    Ok(Built { root, layers, alt_under, _scratch: scratch })
}

pub fn build(cfg: &Cfg, prepop: &Prepop) -> Result<Built, String> {
    build_with(cfg, prepop, &|fs, _| plain_root(&fs))
}

/// The union the overlay is documented to present: first layer wins for files, directories merge.
/// Entries are assumed type-consistent across layers (generator invariant).
pub fn union_model(prepop: &Prepop, nlayers: usize) -> Tree {
    let mut t = Tree::new();
    let n = nlayers.max(1);
    // lower layer index first so that upper layers overwrite
    let mut entries: Vec<&(usize, String, Node)> = prepop.iter().collect();
    entries.sort_by_key(|e| std::cmp::Reverse(e.0 % n));
    for (_, p, node) in entries {
        // (layers are processed lowest first: the implicit directory of an upper layer's entry
        // wins over a same-named file of a lower layer, like an explicit one)
        for a in ancestors_of(p) {
            t.m.insert(a, Node::Dir);
        }
        t.m.insert(p.clone(), node.clone());
    }
    t
}

impl Cfg {
    pub fn contains_emb(&self) -> bool {
        match self {
            Cfg::Emb => true,
            Cfg::Mem | Cfg::Phys => false,
            Cfg::Alt(i, _) | Cfg::OvlSub(i, _) => i.contains_emb(),
            Cfg::Ovl(ls) => ls.iter().any(|l| l.contains_emb()),
        }
    }
}

/// Pre-population for a stack whose outermost overlay has EmbeddedFS layers: entries aimed at an
/// embedded layer are replaced by what the fixture really contains, and entries of the other
/// layers that would contradict the fixture's types (the generator invariant is type consistency
/// across layers) are dropped.
pub fn emb_prepop(cfg: &Cfg, prepop: Prepop) -> Prepop {
    let mut cur = cfg;
    while let Cfg::Alt(inner, _) = cur {
        cur = inner;
    }
    let ls = match cur {
        Cfg::Ovl(ls) if ls.iter().any(|l| *l == Cfg::Emb) => ls,
        _ => return prepop,
    };
    let fixture = crate::embed::fixture_tree();
    let n = ls.len();
    let mut out: Prepop = vec![];
    // Dropping what was aimed at an embedded layer can remove the directory that sat above a
    // shadowed file (see gen::make_prepop): such files go as well, so that no file ends up above
    // a directory of a deeper layer.
    let is_shadow_file = |p: &str, node: &Node| -> bool { matches!(node, Node::File(_)) && prepop.iter().any(|(_, q, m)| (q == p && matches!(m, Node::Dir)) || q.starts_with(&format!("{}/", p))) };
    for (li, p, node) in prepop.iter().cloned() {
        if ls[li % n] == Cfg::Emb || is_shadow_file(&p, &node) {
            continue;
        }
        let clash = match fixture.get(&p) {
            Some(Node::Dir) => !matches!(node, Node::Dir),
            Some(Node::File(_)) => matches!(node, Node::Dir),
            None => false,
        } || ancestors_of(&p).iter().any(|a| matches!(fixture.get(a), Some(Node::File(_))));
        if !clash {
            out.push((li % n, p, node));
        }
    }
    for (i, l) in ls.iter().enumerate() {
        if *l == Cfg::Emb {
            for (p, node) in fixture.m.iter() {
                if !p.is_empty() {
                    out.push((i, p.clone(), node.clone()));
                }
            }
        }
    }
    out
}
