//! The shared history engine: generated case = (name pool, depth, backend stack, layer
//! pre-population, abstract op list); interpreted step by step against the real stack with a set
//! of oracles switched on per property.

use crate::config::*;
use crate::engine::{CaseResult, Failure, Stats};
use crate::exec::*;
use crate::gen::*;
use crate::model::*;
use crate::observe::*;
use crate::wrap::{Call, CallLog, RecFS};
use proptest::prelude::*;
use serde_json::{json, Value};
use std::collections::BTreeSet;
use std::sync::{Arc, Mutex};
use vfs::VfsPath;

#[derive(Clone, Debug, PartialEq)]
pub struct HistCase {
    pub pool: Vec<String>,
    pub depth: u8,
    pub cfg: Cfg,
    pub prepop: Vec<RawEntry>,
    pub ops: Vec<RawOp>,
}

pub fn hist_strategy(
    cfg: BoxedStrategy<Cfg>,
    max_ops: usize,
    max_prepop: usize,
) -> impl Strategy<Value = HistCase> {
    (pool_strategy(), 2u8..=7, cfg, prepop_strategy(max_prepop), prop_oneof![11 => proptest::collection::vec(rawop_strategy(), 0..=max_ops), 1 => proptest::collection::vec(rawop_strategy(), max_ops..=3 * max_ops)], 0usize..EMB_POOLS.len())
        .prop_map(|(pool, depth, cfg, prepop, ops, sel)| {
            // stacks with an embedded layer draw their names from the fixture, so that the
            // history meets the read-only layer's files and directories
            let pool = if cfg.contains_emb() { EMB_POOLS[sel].iter().map(|s| s.to_string()).collect() } else { pool };
            HistCase { pool, depth, cfg, prepop, ops }
        })
}

/// name pools made of component names of /verif/fixture_embed (plus a few names it lacks)
pub const EMB_POOLS: [[&str; 5]; 8] = [
    ["many", "e00", "e24", "sub1", "a"],
    ["rep", "top.txt", "deep.bin", "reprep", "z"],
    ["a", "ab", "c.txt", "cd", "e.bin"],
    ["dir", "sub", "deep", "only", "empty"],
    ["x", "x.tar", "x.tar.gz", "a.txt", "abc"],
    ["ü", "é", "日本.txt", "a", "new"],
    ["big", "block8k.bin", "trail...", "..lead", "n"],
    ["sp ace", "f g.txt", "v1..v2", "notes..txt", "sub.d"],
];

// ------------------------------------------------------------------------------------------
// JSON (replay files)
// ------------------------------------------------------------------------------------------

pub fn data_to_json(d: &DataSpec) -> Value {
    json!([d.kind, d.len, d.seed])
}
pub fn data_from_json(v: &Value) -> Option<DataSpec> {
    let a = v.as_array()?;
    Some(DataSpec { kind: a.first()?.as_u64()? as u8, len: a.get(1)?.as_u64()? as u16, seed: a.get(2)?.as_u64()? as u8 })
}
pub fn rawop_to_json(o: &RawOp) -> Value {
    json!([o.kind, o.mode, o.a, o.b, o.mode2, o.c, o.d, data_to_json(&o.data)])
}
pub fn rawop_from_json(v: &Value) -> Option<RawOp> {
    let a = v.as_array()?;
    let g = |i: usize| a.get(i).and_then(|x| x.as_u64());
    Some(RawOp {
        kind: g(0)? as u8,
        mode: g(1)? as u8,
        a: g(2)? as u16,
        b: g(3)? as u16,
        mode2: g(4)? as u8,
        c: g(5)? as u16,
        d: g(6)? as u16,
        data: data_from_json(a.get(7)?)?,
    })
}
pub fn entry_to_json(e: &RawEntry) -> Value {
    json!({"comps": e.comps, "is_dir": e.is_dir, "mask": e.mask, "vary": e.vary, "data": data_to_json(&e.data)})
}
pub fn entry_from_json(v: &Value) -> Option<RawEntry> {
    Some(RawEntry {
        comps: v.get("comps")?.as_array()?.iter().filter_map(|x| x.as_u64().map(|y| y as u16)).collect(),
        is_dir: v.get("is_dir")?.as_bool()?,
        mask: v.get("mask")?.as_u64()? as u8,
        vary: v.get("vary")?.as_u64()? as u8,
        data: data_from_json(v.get("data")?)?,
    })
}

impl HistCase {
    pub fn to_json(&self) -> Value {
        json!({
            "pool": self.pool,
            "depth": self.depth,
            "cfg": self.cfg.to_json(),
            "prepop": self.prepop.iter().map(entry_to_json).collect::<Vec<_>>(),
            "ops": self.ops.iter().map(rawop_to_json).collect::<Vec<_>>(),
        })
    }
    pub fn from_json(v: &Value) -> Option<HistCase> {
        Some(HistCase {
            pool: v.get("pool")?.as_array()?.iter().filter_map(|x| x.as_str().map(|s| s.to_string())).collect(),
            depth: v.get("depth")?.as_u64()? as u8,
            cfg: Cfg::from_json(v.get("cfg")?)?,
            prepop: v.get("prepop")?.as_array()?.iter().filter_map(entry_from_json).collect(),
            ops: v.get("ops")?.as_array()?.iter().filter_map(rawop_from_json).collect(),
        })
    }
}

// ------------------------------------------------------------------------------------------
// options, summary
// ------------------------------------------------------------------------------------------

#[derive(Clone, Debug)]
pub struct HistOpts {
    pub profile: Profile,
    pub with_time: bool,
    /// C01/C09/C10: outcome classes and full snapshot against the model
    pub contract: bool,
    /// C03: model-free well-formedness invariant
    pub wellformed: bool,
    /// C05: observer agreement
    pub observers: bool,
    /// C12: error monitor
    pub errors: bool,
    /// C10: overlay bookkeeping must stay hidden (extra probes)
    pub hidden: bool,
    /// C08: recorder + deep lower-layer snapshots
    pub lowers: bool,
    /// snapshot after every step (contract) — can be thinned for cost
    pub universe_probe: bool,
    /// generate calls that remove the root itself (only C13 wants them)
    pub root_removal: bool,
    /// overlays keep their whole state in the layers: a second OverlayFS instance built over the
    /// same layers before the history, and a fresh one built after every step, must show the
    /// same tree as the instance the history runs on
    pub twin: bool,
}

pub fn removes_root(op: &Op) -> bool {
    matches!(op, Op::RemoveDir(p) | Op::RemoveDirAll(p) | Op::RemoveFile(p) | Op::MoveDir(p, _) | Op::MoveFile(p, _) if p.is_empty())
}

impl HistOpts {
    pub fn new(profile: Profile) -> HistOpts {
        HistOpts {
            profile,
            with_time: false,
            contract: false,
            wellformed: false,
            observers: false,
            errors: false,
            hidden: false,
            lowers: false,
            universe_probe: true,
            root_removal: false,
            twin: false,
        }
    }
}

#[derive(Default, Clone, Debug)]
pub struct Summary {
    pub executed: usize,
    pub expected_fail: usize,
    pub fail_on_nonempty: usize,
    pub wrong_typed: usize,
    pub wrong_typed_on_populated: usize,
    pub removed_created_earlier: usize,
    pub lower_only_ops: usize,
    pub lower_only_mutations: usize,
    pub multi_layer_ops: usize,
    pub errors_seen: usize,
    pub error_triples: BTreeSet<String>,
    pub max_levels: usize,
    pub recreate_type_change: usize,
    pub recreate_same_type: usize,
    pub removed_lower_dirs_deep: usize,
    pub ops_after_lower_removal: usize,
    pub states_observed: usize,
    pub prefix_pair_present: bool,
    pub absent_probed: u64,
    pub below_file_probed: u64,
    pub big_content: usize,
    pub nonutf8_content: usize,
    pub resyncs: usize,
    /// pre-populated directories whose name is a (shadowed) file in a deeper layer
    pub shadowed_file_dirs: usize,
    /// snapshots taken through a second overlay instance
    pub twin_views: usize,
}

fn levels(t: &Tree) -> usize {
    t.m.keys().map(|k| depth_of(k)).max().unwrap_or(0)
}

/// Effective pool/depth for a case: overlay stacks get shorter long names (marker names are
/// name + "_wo" and must fit the host's 255-byte component limit), depth is clamped so that
/// the universe stays below ~200 paths.
pub fn effective(case: &HistCase) -> (Vec<String>, usize) {
    let mut pool = case.pool.clone();
    if case.cfg.contains_overlay() {
        for n in pool.iter_mut() {
            crate::gen::cut_name(n, 200);
        }
    }
    pool.dedup();
    let mut depth = case.depth as usize;
    let maxd = match pool.len() {
        0..=2 => 7,
        3 => 4,
        4..=8 => 3,
        _ => 2,
    };
    if depth > maxd {
        depth = maxd;
    }
    if depth < 2 {
        depth = 2;
    }
    (pool, depth)
}

// ------------------------------------------------------------------------------------------
// C12 error monitor
// ------------------------------------------------------------------------------------------

pub const PLACEHOLDER: &str = "PATH NOT FILLED BY VFS LAYER";

pub fn related(a: &str, b: &str) -> bool {
    is_within(a, b) || is_within(b, a)
}

/// The error's path must be in the caller's namespace: the call's own path, its destination,
/// or an ancestor/descendant of either; never the placeholder, never an inner-layer path.
pub fn check_error(op: &Op, e: &ErrInfo) -> Result<(), String> {
    if e.stage == "read" || e.stage == "write" {
        // io::Error from a handle carries no vfs path; nothing to check
        return Ok(());
    }
    if e.path == PLACEHOLDER || e.display.contains(PLACEHOLDER) {
        return Err(format!("{}: error carries the unfilled placeholder path: {}", op.render(), e.display));
    }
    for marker in ALT_NAMES.iter().chain([".whiteout", "_wo'", "_wo/"].iter()) {
        if e.path.contains(marker) || e.display.contains(marker) {
            return Err(format!(
                "{}: error exposes an inner-layer path (contains '{}'): path='{}' display='{}'",
                op.render(),
                marker,
                e.path,
                e.display
            ));
        }
    }
    let t = op.target();
    let mut okay = related(&e.path, t);
    if let Some(d) = op.dest() {
        okay = okay || related(&e.path, d);
    }
    if e.stage == "join" {
        okay = true;
    }
    if !okay {
        return Err(format!(
            "{}: error path '{}' is neither the call's path, its destination, nor an ancestor/descendant of them ({})",
            op.render(),
            e.path,
            e.display
        ));
    }
    Ok(())
}

// ------------------------------------------------------------------------------------------
// deep snapshot of a lower layer (C08)
// ------------------------------------------------------------------------------------------

#[derive(Clone, Debug, PartialEq)]
pub struct DeepSnap {
    pub tree: Tree,
    pub times: Vec<(String, Option<std::time::SystemTime>, Option<std::time::SystemTime>)>,
}

pub fn deep_snapshot(root: &VfsPath) -> DeepSnap {
    let s = snapshot(root);
    let mut times = vec![];
    for k in s.tree.m.keys() {
        if let Ok(p) = at(root, k) {
            if let Ok(m) = p.metadata() {
                times.push((k.clone(), m.created, m.modified));
            }
        }
    }
    DeepSnap { tree: s.tree, times }
}

// ------------------------------------------------------------------------------------------
// the runner
// ------------------------------------------------------------------------------------------

fn fail(plan: &Plan, trace: &[String], step: usize, msg: String) -> Failure {
    let pre: Vec<String> = plan
        .prepop
        .iter()
        .map(|(l, p, n)| match n {
            Node::Dir => format!("L{}:{}/", l, p),
            Node::File(b) => format!("L{}:{}={}", l, p, crate::util::show_bytes(b)),
        })
        .collect();
    let message = format!(
        "stack {} | pre-populated {:?} | step {}: {}\n  trace:\n    {}",
        plan.cfg.render(),
        pre,
        step,
        msg,
        trace.join("\n    ")
    );
    let mut replay = plan.replay.clone();
    if let Some(o) = replay.as_object_mut() {
        o.insert("failing_step".into(), json!(step));
        o.insert("trace".into(), json!(trace));
        o.insert("prepop_rendered".into(), json!(pre));
    }
    Failure { message, replay }
}

pub type DynProvider<'a> = dyn Fn(usize, &Tree, &Ctx, &BTreeSet<String>, &BTreeSet<String>) -> Op + 'a;

pub enum OpSource<'a> {
    Raw(&'a [RawOp]),
    Fixed(&'a [Op]),
    /// (provider(step index, model, ctx, lower-layer paths, removed lower paths), number of steps)
    Dyn(&'a DynProvider<'a>, usize),
}

/// Everything the runner needs; built from a generated HistCase or from an explicit script.
pub struct Plan<'a> {
    pub cfg: &'a Cfg,
    pub pool: Vec<String>,
    pub depth: usize,
    pub prepop: Prepop,
    pub source: OpSource<'a>,
    /// JSON from which this plan can be rebuilt (replay file body)
    pub replay: Value,
}

pub struct HistResult {
    pub summary: Summary,
    pub cfg_shape: String,
    pub trace: Vec<String>,
}

/// Known-finding triggers: returns Some(trigger) if `op` must be excluded by construction.
/// what a trigger predicate may look at besides the stack, the model state and the op
pub struct ExCtx<'a> {
    /// paths that the pre-population placed only in lower layers of the outermost overlay
    pub lower_only: &'a BTreeSet<String>,
}

pub type Excluder = dyn Fn(&Cfg, &Tree, &Op, &ExCtx) -> Option<&'static str> + Sync;

pub fn run_hist(
    case: &HistCase,
    opts: &HistOpts,
    exclude: &Excluder,
    st: &mut Stats,
) -> Result<HistResult, Failure> {
    let (pool, depth) = effective(case);
    let nlayers = case.cfg.overlay_layers().max(1);
    let prepop = emb_prepop(&case.cfg, make_prepop(&case.prepop, &pool, depth, nlayers));
    let plan = Plan {
        cfg: &case.cfg,
        pool,
        depth,
        prepop,
        source: OpSource::Raw(&case.ops),
        replay: json!({"kind": "hist", "case": case.to_json()}),
    };
    run_plan(&plan, opts, exclude, st)
}

pub fn run_plan(
    plan: &Plan,
    opts: &HistOpts,
    exclude: &Excluder,
    st: &mut Stats,
) -> Result<HistResult, Failure> {
    let case = plan;
    let pool = plan.pool.clone();
    let depth = plan.depth;
    let uni = universe(&pool, depth);
    let nlayers = plan.cfg.overlay_layers().max(1);
    let prepop = plan.prepop.clone();
    let lower_only: BTreeSet<String> = lower_only_paths(&prepop, nlayers).into_iter().collect();
    let multi: BTreeSet<String> = multi_layer_paths(&prepop, nlayers).into_iter().collect();
    let log: CallLog = Arc::new(Mutex::new(vec![]));
    let built = if opts.lowers {
        let log2 = log.clone();
        build_with(case.cfg, &prepop, &move |fs, i| {
            VfsPath::new(RecFS { inner: fs, layer: i, log: log2.clone() })
        })
    } else {
        build(case.cfg, &prepop)
    };
    let built = match built {
        Ok(b) => b,
        Err(e) => {
            // pre-population itself failed: infrastructure or a defect in a primitive; surface it
            return Err(fail(case, &[], 0, format!("building the stack / pre-population failed: {}", e)));
        }
    };
    let root = built.root.clone();
    let twin0: Option<VfsPath> = if opts.twin && matches!(plan.cfg, Cfg::Ovl(_) | Cfg::OvlSub(..)) && !built.layers.is_empty() { Some(VfsPath::new(vfs::OverlayFS::new(&built.layers))) } else { None };
    let mut trace: Vec<String> = vec![];
    let mut sum = Summary::default();
    sum.prefix_pair_present = pool_has_prefix_pair(&pool);
    sum.shadowed_file_dirs = prepop.iter().filter(|(_, p, n)| matches!(n, Node::File(_)) && prepop.iter().any(|(_, q, m)| q == p && matches!(m, Node::Dir))).count();
    let ctx = Ctx { pool: &pool, depth, uni: &uni };

    // initial state
    let mut model = union_model(&prepop, nlayers);
    let snap0 = if opts.universe_probe { full_snapshot(&root, &uni) } else { snapshot(&root) };
    if opts.contract {
        if !snap0.problems.is_empty() {
            return Err(fail(case, &trace, 0, format!("initial state inconsistent: {:?}", snap0.problems)));
        }
        if snap0.tree != model {
            return Err(fail(
                case,
                &trace,
                0,
                format!("initial view is not the union of the layers: {:?}", diff_trees(&model, &snap0.tree)),
            ));
        }
    } else {
        model = snap0.tree.clone();
    }
    let mut created_in_case: BTreeSet<String> = BTreeSet::new();
    let mut removed_lower: BTreeSet<String> = BTreeSet::new();
    let mut removed_types: std::collections::BTreeMap<String, bool> = Default::default();
    let mut lower_snaps: Vec<DeepSnap> = vec![];
    if opts.lowers {
        for l in built.layers.iter().skip(1) {
            lower_snaps.push(deep_snapshot(l));
        }
        log.lock().unwrap().clear();
    }
    if opts.wellformed {
        let wf = well_formed(&root, &uni);
        if !wf.problems.is_empty() {
            return Err(fail(case, &trace, 0, format!("initial state not well-formed: {:?}", wf.problems)));
        }
    }

    let n_ops = match &plan.source {
        OpSource::Raw(r) => r.len(),
        OpSource::Fixed(f) => f.len(),
        OpSource::Dyn(_, n) => *n,
    };
    for i in 0..n_ops {
        let step = i + 1;
        let op = match &plan.source {
            OpSource::Raw(r) => resolve(&r[i], &model, &ctx, opts.profile, opts.with_time),
            OpSource::Fixed(f) => f[i].clone(),
            OpSource::Dyn(f, _) => {
                let lowers: BTreeSet<String> = lower_only.union(&multi).cloned().collect();
                f(i, &model, &ctx, &lowers, &removed_lower)
            }
        };
        let op = if !opts.root_removal && removes_root(&op) { Op::Exists(String::new()) } else { op };
        if let Some(trigger) = exclude(case.cfg, &model, &op, &ExCtx { lower_only: &lower_only }) {
            st.exclude(trigger);
            continue;
        }
        let pred = predict(&model, &op);
        let wrong = is_wrong_typed(&model, &op);
        let out = exec(&root, &op);
        trace.push(format!("{} -> {}", op.render(), out.render()));
        sum.executed += 1;
        st.label(&format!("op:{}", op.kind()));
        st.label(&format!("outcome:{}", out.class_str()));
        if wrong {
            sum.wrong_typed += 1;
            st.label("wrong_typed_calls");
            let tp = op.target();
            if model.has_children(tp) || (model.is_file(tp) && model.children(&parent_of(tp)).len() > 1) {
                if levels(&model) >= 2 {
                    sum.wrong_typed_on_populated += 1;
                }
            }
        }
        if matches!(pred.expect, Expect::Err(_)) {
            sum.expected_fail += 1;
            st.label("expected_failures");
            if model.m.len() > 1 {
                sum.fail_on_nonempty += 1;
            }
        }
        if lower_only.contains(op.target()) || op.dest().map(|d| lower_only.contains(d)).unwrap_or(false) {
            sum.lower_only_ops += 1;
            if !op.is_observer() {
                sum.lower_only_mutations += 1;
            }
        }
        if multi.contains(op.target()) {
            sum.multi_layer_ops += 1;
        }
        if let Op::CreateFile(_, b) | Op::Append(_, b) = &op {
            if b.len() >= 8192 {
                sum.big_content += 1;
            }
            if std::str::from_utf8(b).is_err() {
                sum.nonutf8_content += 1;
            }
        }
        if !removed_lower.is_empty() {
            sum.ops_after_lower_removal += 1;
        }

        // --- panics are violations under every oracle
        if let Outcome::Panic(m) = &out {
            return Err(fail(case, &trace, step, format!("{} panicked: {}", op.render(), m)));
        }

        // --- C12
        if let Outcome::Err(e) = &out {
            sum.errors_seen += 1;
            sum.error_triples.insert(format!("{}|{}|{:?}", op.kind(), case.cfg.top(), e.class));
            if opts.errors {
                if let Err(m) = check_error(&op, e) {
                    return Err(fail(case, &trace, step, m));
                }
                // kind rules named by the property
                if let Expect::Err(req) = &pred.expect {
                    if *req != ErrReq::Any {
                        if let Err(m) = judge(&pred.expect, &out) {
                            return Err(fail(case, &trace, step, format!("{}: {}", op.render(), m)));
                        }
                    }
                }
            }
        }

        // --- C08
        if opts.lowers {
            let calls: Vec<Call> = std::mem::take(&mut *log.lock().unwrap());
            for c in &calls {
                if c.mutating && c.layer == crate::wrap::OUTSIDE_LAYERS {
                    return Err(fail(
                        case,
                        &trace,
                        step,
                        format!("{}: mutating call {}('{}') was issued to the filesystem the layers live in, outside the upper layer's directory", op.render(), c.method, c.path),
                    ));
                }
                if c.mutating && c.layer >= 1 {
                    return Err(fail(
                        case,
                        &trace,
                        step,
                        format!("{}: mutating call {}('{}') was issued to lower layer {}", op.render(), c.method, c.path, c.layer),
                    ));
                }
                if c.mutating && op.is_observer() {
                    return Err(fail(
                        case,
                        &trace,
                        step,
                        format!("observer {} issued mutating call {}('{}') to layer {}", op.render(), c.method, c.path, c.layer),
                    ));
                }
            }
            for (li, l) in built.layers.iter().skip(1).enumerate() {
                let now = deep_snapshot(l);
                if now != lower_snaps[li] {
                    let d = diff_trees(&lower_snaps[li].tree, &now.tree);
                    return Err(fail(
                        case,
                        &trace,
                        step,
                        format!("{}: lower layer {} changed: {:?} (or a created/modified time moved)", op.render(), li + 1, d),
                    ));
                }
            }
        }

        // --- contract
        if opts.contract {
            if let Err(m) = judge(&pred.expect, &out) {
                return Err(fail(case, &trace, step, format!("{}: {}", op.render(), m)));
            }
            let snap = if opts.universe_probe { full_snapshot(&root, &uni) } else { snapshot(&root) };
            sum.states_observed += 1;
            if opts.lowers {
                // the snapshot consists of observers only
                let calls: Vec<Call> = std::mem::take(&mut *log.lock().unwrap());
                if let Some(c) = calls.iter().find(|c| c.mutating) {
                    return Err(fail(
                        case,
                        &trace,
                        step,
                        format!("observers (snapshot after {}) issued mutating call {}('{}') to layer {}", op.render(), c.method, c.path, c.layer),
                    ));
                }
            }
            if !snap.problems.is_empty() {
                return Err(fail(case, &trace, step, format!("after {}: observable state inconsistent: {:?}", op.render(), &snap.problems[..snap.problems.len().min(4)])));
            }
            if let Some(t0) = &twin0 {
                let fresh = VfsPath::new(vfs::OverlayFS::new(&built.layers));
                for (who, t) in [("built before the history", t0), ("built just now", &fresh)] {
                    // the other instance's observers tell one consistent story as well (every universe
                    // path probed where the property is about observers, C05; reachable entries elsewhere)
                    let early = who.starts_with("built before");
                    let ts = if opts.observers && early {
                        full_snapshot(t, &uni)
                    } else if early {
                        // reachable entries plus exists/metadata of every universe path (orphans, ghosts)
                        let mut ts = snapshot(t);
                        probe_universe(t, &uni, &mut ts);
                        ts
                    } else {
                        snapshot(t)
                    };
                    if !ts.problems.is_empty() {
                        return Err(fail(case, &trace, step, format!("after {}: a second OverlayFS instance over the same layers ({}) is inconsistent in itself: {:?}", op.render(), who, &ts.problems[..ts.problems.len().min(4)])));
                    }
                    if ts.tree != snap.tree {
                        return Err(fail(case, &trace, step, format!("after {}: a second OverlayFS instance over the same layers ({}) shows a different tree: {:?}", op.render(), who, diff_trees(&snap.tree, &ts.tree))));
                    }
                }
                sum.twin_views += 2;
            }
            let expected_tree = match &pred.effect {
                Effect::Same => Some(model.clone()),
                Effect::New(t) => {
                    if out.is_ok() {
                        Some(t.clone())
                    } else {
                        Some(model.clone())
                    }
                }
                Effect::Unspecified => None,
            };
            match expected_tree {
                Some(t) => {
                    if snap.tree != t {
                        let what = if out.is_ok() { "successful call did not change exactly the entries it names" } else { "failed call changed the tree" };
                        return Err(fail(
                            case,
                            &trace,
                            step,
                            format!("after {}: {}: {:?}", op.render(), what, diff_trees(&t, &snap.tree)),
                        ));
                    }
                    model = t;
                }
                None => {
                    // failed composite or excluded input: re-synchronise, but the tree must
                    // still be a tree
                    if let Err(m) = snap.tree.well_formed() {
                        return Err(fail(case, &trace, step, format!("after {}: {}", op.render(), m)));
                    }
                    sum.resyncs += 1;
                    model = snap.tree.clone();
                }
            }
        } else {
            // model-free modes: follow the observed state
            let snap = snapshot(&root);
            sum.states_observed += 1;
            if opts.lowers {
                let calls: Vec<Call> = std::mem::take(&mut *log.lock().unwrap());
                if let Some(c) = calls.iter().find(|c| c.mutating) {
                    return Err(fail(
                        case,
                        &trace,
                        step,
                        format!("observers (snapshot after {}) issued mutating call {}('{}') to layer {}", op.render(), c.method, c.path, c.layer),
                    ));
                }
            }
            // a second OverlayFS instance over the same layers, built before the history, is a
            // filesystem in a reachable state too: well-formed (C03), observers consistent (C05)
            if let Some(t0) = &twin0 {
                let ts = if opts.observers {
                    full_snapshot(t0, &uni)
                } else {
                    let mut ts = snapshot(t0);
                    probe_universe(t0, &uni, &mut ts);
                    ts
                };
                if !ts.problems.is_empty() {
                    return Err(fail(case, &trace, step, format!("after {}: a second OverlayFS instance over the same layers (built before the history) is inconsistent in itself: {:?}", op.render(), &ts.problems[..ts.problems.len().min(4)])));
                }
                sum.twin_views += 1;
            }
            model = snap.tree;
        }

        // bookkeeping for non-triviality rules
        if out.is_ok() {
            match &op {
                Op::CreateDir(p) | Op::CreateFile(p, _) | Op::CreateDirAll(p) => {
                    if let Some(was_dir) = removed_types.get(p) {
                        let now_dir = !matches!(op, Op::CreateFile(..));
                        if *was_dir != now_dir {
                            sum.recreate_type_change += 1;
                        } else {
                            sum.recreate_same_type += 1;
                        }
                        removed_types.remove(p);
                    }
                    created_in_case.insert(p.clone());
                }
                Op::RemoveFile(p) | Op::RemoveDir(p) | Op::RemoveDirAll(p) => {
                    if created_in_case.contains(p) {
                        sum.removed_created_earlier += 1;
                    }
                    if lower_only.contains(p) || multi.contains(p) {
                        removed_lower.insert(p.clone());
                        removed_types.insert(p.clone(), !matches!(op, Op::RemoveFile(_)));
                        if matches!(op, Op::RemoveDirAll(_)) && lower_only.iter().any(|q| q.starts_with(&format!("{}/", p)) && depth_of(q) >= depth_of(p) + 2) {
                            sum.removed_lower_dirs_deep += 1;
                        }
                    }
                }
                _ => {}
            }
        }
        sum.max_levels = sum.max_levels.max(levels(&model));

        // --- C03
        if opts.wellformed {
            let wf = well_formed(&root, &uni);
            if !wf.problems.is_empty() {
                return Err(fail(case, &trace, step, format!("after {}: namespace is not a well-formed tree: {:?}", op.render(), &wf.problems[..wf.problems.len().min(4)])));
            }
        }
        // --- C05
        if opts.observers {
            let mut os = ObsStats::default();
            let probs = observers_agree(&root, &uni, &mut os);
            sum.absent_probed += os.absent_probed;
            sum.below_file_probed += os.below_file_probed;
            if !probs.is_empty() {
                return Err(fail(case, &trace, step, format!("after {}: observers disagree: {:?}", op.render(), &probs[..probs.len().min(4)])));
            }
        }
    }
    st.label(&format!("cfg:{}", case.cfg.top()));
    st.label(&format!("cfgshape:{}", case.cfg.shape()));
    st.label(&format!("nesting:{}", case.cfg.nesting()));
    for c in pool_class(&pool) {
        st.label(&format!("pool:{}", c));
    }
    Ok(HistResult { summary: sum, cfg_shape: case.cfg.shape(), trace })
}

pub fn sample_json(case: &HistCase, opts: &HistOpts, trace: &[String]) -> Value {
    let (pool, depth) = effective(case);
    json!({
        "history": trace.iter().take(14).collect::<Vec<_>>(),
        "stack": case.cfg.render(),
        "pool": pool,
        "depth": depth,
        "prepop_entries": case.prepop.len(),
        "n_ops": case.ops.len(),
        "profile": format!("{:?}", opts.profile),
    })
}

pub fn no_exclusions() -> Box<Excluder> {
    Box::new(|_, _, _, _| None)
}

pub type HistCheck = dyn Fn(&HistCase, &mut Stats, bool) -> CaseResult + Sync;

// ------------------------------------------------------------------------------------------
// explicit scripts (regress/ inputs, known-finding repros)
// ------------------------------------------------------------------------------------------

fn bytes_from_json(v: &Value) -> Option<Bytes> {
    let s = v.as_str()?;
    if let Some(h) = s.strip_prefix("hex:") {
        Some(Arc::new(crate::util::unhex(h)))
    } else if let Some(r) = s.strip_prefix("rep:") {
        // rep:<count>:<hexbyte>
        let mut it = r.split(':');
        let n: usize = it.next()?.parse().ok()?;
        let b = crate::util::unhex(it.next()?).first().copied().unwrap_or(b'x');
        Some(Arc::new(vec![b; n]))
    } else {
        Some(Arc::new(s.as_bytes().to_vec()))
    }
}

pub fn op_from_json(v: &Value) -> Option<Op> {
    let a = v.as_array()?;
    let name = a.first()?.as_str()?;
    let p = a.get(1)?.as_str()?.to_string();
    let p2 = || a.get(2).and_then(|x| x.as_str()).map(|s| s.to_string());
    Some(match name {
        "create_dir" => Op::CreateDir(p),
        "create_file" => Op::CreateFile(p, bytes_from_json(a.get(2)?)?),
        "append_file" => Op::Append(p, bytes_from_json(a.get(2)?)?),
        "remove_file" => Op::RemoveFile(p),
        "remove_dir" => Op::RemoveDir(p),
        "read" => Op::Read(p),
        "read_dir" => Op::ReadDir(p),
        "metadata" => Op::Metadata(p),
        "exists" => Op::Exists(p),
        "is_file" => Op::IsFile(p),
        "is_dir" => Op::IsDir(p),
        "create_dir_all" => Op::CreateDirAll(p),
        "remove_dir_all" => Op::RemoveDirAll(p),
        "read_to_string" => Op::ReadToString(p),
        "walk_dir" => Op::WalkDir(p),
        "copy_file" => Op::CopyFile(p, p2()?),
        "move_file" => Op::MoveFile(p, p2()?),
        "copy_dir" => Op::CopyDir(p, p2()?),
        "move_dir" => Op::MoveDir(p, p2()?),
        "set_time" => {
            let f = match a.get(2)?.as_str()? {
                "created" => TimeField::Created,
                "modified" => TimeField::Modified,
                _ => TimeField::Accessed,
            };
            Op::SetTime(p, f, a.get(3)?.as_i64()?, a.get(4)?.as_u64()? as u32)
        }
        _ => return None,
    })
}

pub struct Script {
    pub cfg: Cfg,
    pub prepop: Prepop,
    pub ops: Vec<Op>,
    /// optional per-op expectation transcribed from the repository's own tests:
    /// Some(true) = the suite asserts success, Some(false) = the suite asserts an error
    pub expects: Vec<Option<bool>>,
    pub pool: Vec<String>,
    pub depth: usize,
}

pub fn script_from_json(v: &Value) -> Option<Script> {
    let cfg = Cfg::from_json(v.get("cfg")?)?;
    let mut prepop: Prepop = vec![];
    if let Some(pp) = v.get("prepop").and_then(|x| x.as_array()) {
        for e in pp {
            let a = e.as_array()?;
            let layer = a.first()?.as_u64()? as usize;
            let path = a.get(1)?.as_str()?.to_string();
            let node = match a.get(2)?.as_str()? {
                "dir" => Node::Dir,
                _ => Node::File(bytes_from_json(a.get(2)?)?),
            };
            prepop.push((layer, path, node));
        }
    }
    let mut ops = vec![];
    let mut expects = vec![];
    for o in v.get("ops")?.as_array()? {
        ops.push(op_from_json(o)?);
        let e = o.as_array().and_then(|a| a.last()).and_then(|l| l.get("expect")).and_then(|x| x.as_str()).map(|x| x == "ok");
        expects.push(e);
    }
    // universe: every component that occurs anywhere
    let mut names: BTreeSet<String> = BTreeSet::new();
    let mut depth = 2usize;
    let mut add = |p: &str| {
        for c in p.split('/').filter(|c| !c.is_empty()) {
            names.insert(c.to_string());
        }
        depth = depth.max(depth_of(p));
    };
    for (_, p, _) in &prepop {
        add(p);
    }
    for o in &ops {
        add(o.target());
        if let Some(d) = o.dest() {
            add(d);
        }
    }
    let mut pool: Vec<String> = names.into_iter().collect();
    if pool.is_empty() {
        pool.push("a".into());
    }
    let depth = depth.min(4);
    Some(Script { cfg, prepop, ops, expects, pool, depth })
}

pub fn run_script(v: &Value, opts: &HistOpts, exclude: &Excluder) -> CaseResult {
    let sc = script_from_json(v).ok_or_else(|| Failure { message: "unparsable script".into(), replay: v.clone() })?;
    // oracle self-test: where the repository's suite asserts an outcome, the reference model
    // must predict the same (run on the model alone, before touching the implementation)
    if sc.expects.iter().any(|e| e.is_some()) {
        let n = sc.cfg.overlay_layers().max(1);
        let mut t = union_model(&sc.prepop, n);
        for (i, op) in sc.ops.iter().enumerate() {
            let p = predict(&t, op);
            if let Some(want_ok) = sc.expects[i] {
                let model_ok = match &p.expect {
                    Expect::Ok(_) => Some(true),
                    Expect::Err(_) => Some(false),
                    Expect::Unspecified => None,
                };
                if model_ok.is_some() && model_ok != Some(want_ok) {
                    return Err(Failure {
                        message: format!("MODEL SELF-TEST: the repository's suite asserts that step {} {} {} but the reference model predicts {:?}", i + 1, op.render(), if want_ok { "succeeds" } else { "fails" }, p.expect),
                        replay: v.clone(),
                    });
                }
            }
            if let Effect::New(nt) = p.effect {
                if matches!(p.expect, Expect::Ok(_)) {
                    t = nt;
                }
            }
        }
    }
    let plan = Plan {
        cfg: &sc.cfg,
        pool: sc.pool.clone(),
        depth: sc.depth,
        prepop: sc.prepop.clone(),
        source: OpSource::Fixed(&sc.ops),
        replay: v.clone(),
    };
    let mut st = Stats::default();
    run_plan(&plan, opts, exclude, &mut st).map(|_| ())
}
