//! Cooperative scheduler on the verif-hooks yield points: runs one worker thread at a time and
//! decides at every yield point (before every MemoryFS lock acquisition, at PhysicalFS::create_dir
//! and at call boundaries) which thread proceeds. Schedules are enumerated depth-first with
//! iterative preemption bounding; every explored schedule is replayable from its choice list.
//!
//! Baton passing: the thread that reaches a yield point takes the decision itself (under the
//! scheduler mutex); if the schedule says "continue", no context switch happens at all.

use std::sync::{Arc, Condvar, Mutex};
use std::time::{Duration, Instant};

#[derive(Clone, Debug)]
pub struct Decision {
    pub enabled: Vec<usize>,
    pub chosen: usize,
    /// the thread that ran immediately before this decision, if it is still enabled
    pub prev_enabled: Option<usize>,
    pub tried: Vec<usize>,
    pub label: &'static str,
}

#[derive(Debug)]
struct State {
    n: usize,
    /// worker holding the baton
    turn: Option<usize>,
    parked: Vec<bool>,
    finished: Vec<bool>,
    label: Vec<&'static str>,
    abandoned: bool,
    // schedule being executed
    prefix: Vec<usize>,
    rng: Option<u64>,
    /// "few preemptions at random places": switch to another thread exactly at these decisions
    switch_points: Option<Vec<usize>>,
    decisions: Vec<Decision>,
    last: Option<usize>,
    progress: u64,
}

impl State {
    /// choose who runs next; all unfinished workers are parked when this is called
    fn decide(&mut self) -> Option<usize> {
        let enabled: Vec<usize> = (0..self.n).filter(|i| !self.finished[*i]).collect();
        if enabled.is_empty() {
            return None;
        }
        let prev_enabled = self.last.filter(|l| enabled.contains(l));
        let di = self.decisions.len();
        let chosen = if di < self.prefix.len() && enabled.contains(&self.prefix[di]) {
            self.prefix[di]
        } else if let Some(points) = &self.switch_points {
            let seed = self.rng.get_or_insert(1);
            *seed = crate::util::mix(*seed, di as u64 + 1);
            match prev_enabled {
                Some(p) if !points.contains(&di) => p,
                Some(p) => {
                    let others: Vec<usize> = enabled.iter().copied().filter(|e| *e != p).collect();
                    if others.is_empty() {
                        p
                    } else {
                        others[(*seed % others.len() as u64) as usize]
                    }
                }
                None => enabled[(*seed % enabled.len() as u64) as usize],
            }
        } else if let Some(seed) = self.rng.as_mut() {
            *seed = crate::util::mix(*seed, di as u64 + 1);
            enabled[(*seed % enabled.len() as u64) as usize]
        } else {
            prev_enabled.unwrap_or(enabled[0])
        };
        let label = self.label[chosen];
        self.decisions.push(Decision { enabled, chosen, prev_enabled, tried: vec![chosen], label });
        self.last = Some(chosen);
        self.progress += 1;
        Some(chosen)
    }
}

pub struct Shared {
    st: Mutex<State>,
    worker_cv: Vec<Condvar>,
    controller_cv: Condvar,
}

impl Shared {
    fn new(n: usize) -> Arc<Shared> {
        Arc::new(Shared {
            st: Mutex::new(State {
                n,
                turn: None,
                parked: vec![false; n],
                finished: vec![false; n],
                label: vec![""; n],
                abandoned: false,
                prefix: vec![],
                rng: None,
                switch_points: None,
                decisions: vec![],
                last: None,
                progress: 0,
            }),
            worker_cv: (0..n).map(|_| Condvar::new()).collect(),
            controller_cv: Condvar::new(),
        })
    }

    /// called by worker `tid` at a yield point
    fn yield_now(&self, tid: usize, label: &'static str) {
        let mut st = self.st.lock().unwrap();
        if st.abandoned {
            return;
        }
        st.parked[tid] = true;
        st.label[tid] = label;
        if st.turn == Some(tid) {
            // I hold the baton: everybody else is parked or finished, so I decide
            match st.decide() {
                Some(next) if next == tid => {
                    st.parked[tid] = false;
                    return;
                }
                Some(next) => {
                    st.turn = Some(next);
                    self.worker_cv[next].notify_one();
                }
                None => unreachable!("the deciding worker itself is enabled"),
            }
        } else {
            // initial parking (before the controller hands out the baton)
            self.controller_cv.notify_one();
        }
        while st.turn != Some(tid) && !st.abandoned {
            st = self.worker_cv[tid].wait(st).unwrap();
        }
        st.parked[tid] = false;
    }

    fn finish(&self, tid: usize) {
        let mut st = self.st.lock().unwrap();
        st.finished[tid] = true;
        st.parked[tid] = false;
        if st.abandoned {
            return;
        }
        if st.turn == Some(tid) {
            match st.decide() {
                Some(next) => {
                    st.turn = Some(next);
                    self.worker_cv[next].notify_one();
                }
                None => {
                    st.turn = None;
                    self.controller_cv.notify_one();
                }
            }
        }
    }
}

#[derive(Debug)]
pub enum RunEnd<R> {
    Done(Vec<R>),
    /// a worker did not reach its next yield point in time: (thread, label it was released at)
    Hang(usize, &'static str),
}

pub type Job<R> = Box<dyn FnOnce(&dyn Fn(&'static str)) -> R + Send>;

/// Persistent worker threads (spawning fresh OS threads per execution dominated the cost).
pub struct Pool<R: Send + 'static> {
    n: usize,
    shared: Arc<Shared>,
    senders: Vec<std::sync::mpsc::Sender<Job<R>>>,
    results: Arc<Mutex<Vec<Option<R>>>>,
    poisoned: bool,
}

impl<R: Send + 'static> Pool<R> {
    pub fn new(n: usize) -> Pool<R> {
        let shared = Shared::new(n);
        let results: Arc<Mutex<Vec<Option<R>>>> = Arc::new(Mutex::new((0..n).map(|_| None).collect()));
        let mut senders = vec![];
        for tid in 0..n {
            let (tx, rx) = std::sync::mpsc::channel::<Job<R>>();
            senders.push(tx);
            let sh = shared.clone();
            let res = results.clone();
            std::thread::spawn(move || {
                crate::util::install_panic_hook();
                let sh2 = sh.clone();
                vfs::verif_hooks::install(Arc::new(move |label| sh2.yield_now(tid, label)));
                let sh3 = sh.clone();
                let boundary = move |label: &'static str| sh3.yield_now(tid, label);
                while let Ok(job) = rx.recv() {
                    boundary("thread-start");
                    let r = job(&boundary);
                    res.lock().unwrap()[tid] = Some(r);
                    sh.finish(tid);
                }
                vfs::verif_hooks::uninstall();
            });
        }
        Pool { n, shared, senders, results, poisoned: false }
    }

    /// Execute one job per worker under the schedule `prefix` (thread ids per decision); beyond
    /// the prefix the default policy is: keep running the same thread if it is still enabled,
    /// else the lowest enabled id (or pseudo-random choices if `random` is set).
    pub fn run(&mut self, jobs: Vec<Job<R>>, prefix: &[usize], random: Option<u64>, step_timeout: Duration) -> (Vec<Decision>, RunEnd<R>) {
        self.run_with(jobs, prefix, random, None, step_timeout)
    }

    /// `switch_points`: instead of a uniformly random schedule, run non-preemptively and switch
    /// threads exactly at the given decision indices (few preemptions at random places)
    pub fn run_with(&mut self, jobs: Vec<Job<R>>, prefix: &[usize], random: Option<u64>, switch_points: Option<Vec<usize>>, step_timeout: Duration) -> (Vec<Decision>, RunEnd<R>) {
        let n = self.n;
        assert_eq!(jobs.len(), n);
        assert!(!self.poisoned);
        {
            let mut st = self.shared.st.lock().unwrap();
            st.turn = None;
            for i in 0..n {
                st.parked[i] = false;
                st.finished[i] = false;
                st.label[i] = "";
            }
            st.prefix = prefix.to_vec();
            st.rng = random;
            st.switch_points = switch_points;
            st.decisions = vec![];
            st.last = None;
        }
        for (tid, j) in jobs.into_iter().enumerate() {
            self.senders[tid].send(j).expect("worker alive");
        }
        let shared = self.shared.clone();
        let mut st = shared.st.lock().unwrap();
        // wait for everybody to park at "thread-start"
        let deadline = Instant::now() + step_timeout;
        while !(0..n).all(|i| st.parked[i]) {
            let now = Instant::now();
            if now >= deadline {
                st.abandoned = true;
                self.poisoned = true;
                return (vec![], RunEnd::Hang(0, "thread-start"));
            }
            let (g, _) = shared.controller_cv.wait_timeout(st, deadline - now).unwrap();
            st = g;
        }
        // hand out the baton
        if let Some(first) = st.decide() {
            st.turn = Some(first);
            shared.worker_cv[first].notify_one();
        }
        // wait for completion, watching for stalls
        let mut last_progress = st.progress;
        let mut stall_since = Instant::now();
        loop {
            if (0..n).all(|i| st.finished[i]) {
                break;
            }
            let (g, _) = shared.controller_cv.wait_timeout(st, Duration::from_millis(200)).unwrap();
            st = g;
            if st.progress != last_progress {
                last_progress = st.progress;
                stall_since = Instant::now();
            } else if stall_since.elapsed() >= step_timeout && !(0..n).all(|i| st.finished[i]) {
                let t = st.turn.unwrap_or(0);
                let l = st.decisions.last().map(|d| d.label).unwrap_or("start");
                st.abandoned = true;
                for cv in &shared.worker_cv {
                    cv.notify_one();
                }
                self.poisoned = true;
                let ds = st.decisions.clone();
                return (ds, RunEnd::Hang(t, l));
            }
        }
        let decisions = std::mem::take(&mut st.decisions);
        drop(st);
        let res: Vec<R> = self.results.lock().unwrap().iter_mut().map(|r| r.take().expect("worker result")).collect();
        (decisions, RunEnd::Done(res))
    }
}

/// Execute exactly one schedule (replay of a recorded choice list).
pub fn run_one<R: Send + 'static>(jobs: Vec<Job<R>>, prefix: &[usize], step_timeout: Duration) -> (Vec<Decision>, RunEnd<R>) {
    let mut pool: Pool<R> = Pool::new(jobs.len());
    pool.run(jobs, prefix, None, step_timeout)
}

pub fn preemptions(ds: &[Decision]) -> usize {
    ds.iter().filter(|d| matches!(d.prev_enabled, Some(p) if p != d.chosen)).count()
}

#[derive(Default, Debug, Clone)]
pub struct ExploreStats {
    pub schedules: u64,
    pub exhausted: bool,
    pub max_bound_completed: Option<usize>,
    pub max_decisions: usize,
    pub random_schedules: u64,
    pub max_preemptions_seen: usize,
}

/// Depth-first enumeration with iterative preemption bounding.
/// `make` builds fresh workers for every execution; `check` judges one execution
/// (schedule, results) and returns Err(description) on a violation.
pub fn explore<R: Send + 'static>(
    make: &dyn Fn() -> Vec<Job<R>>,
    check: &mut dyn FnMut(&[Decision], &RunEnd<R>) -> Result<(), String>,
    cap: u64,
    max_bound: usize,
    random_after: u64,
    seed: u64,
    step_timeout: Duration,
) -> (ExploreStats, Option<(Vec<usize>, String)>) {
    let mut stats = ExploreStats::default();
    let n_workers = make().len();
    let mut pool: Pool<R> = Pool::new(n_workers);
    'bounds: for bound in 0..=max_bound {
        let mut stack: Vec<Decision> = vec![];
        let mut pruned = false;
        let mut count_this_bound = 0u64;
        loop {
            let prefix: Vec<usize> = stack.iter().map(|d| d.chosen).collect();
            let (ds, end) = pool.run(make(), &prefix, None, step_timeout);
            stats.schedules += 1;
            count_this_bound += 1;
            stats.max_decisions = stats.max_decisions.max(ds.len());
            stats.max_preemptions_seen = stats.max_preemptions_seen.max(preemptions(&ds));
            if let Err(m) = check(&ds, &end) {
                return (stats, Some((ds.iter().map(|d| d.chosen).collect(), m)));
            }
            // merge: keep `tried` of the retained prefix, adopt the new tail
            let keep = stack.len();
            for (i, d) in ds.into_iter().enumerate() {
                if i >= keep {
                    stack.push(d);
                }
            }
            // backtrack to the deepest decision with an untried alternative within the bound
            let mut next: Option<(usize, usize)> = None;
            while let Some(d) = stack.last() {
                let i = stack.len() - 1;
                let pre_before = preemptions(&stack[..i]);
                let mut alt = None;
                for cand in &d.enabled {
                    if d.tried.contains(cand) {
                        continue;
                    }
                    let is_preempt = matches!(d.prev_enabled, Some(p) if p != *cand);
                    if pre_before + is_preempt as usize > bound {
                        pruned = true;
                        continue;
                    }
                    alt = Some(*cand);
                    break;
                }
                match alt {
                    Some(a) => {
                        next = Some((i, a));
                        break;
                    }
                    None => {
                        stack.pop();
                    }
                }
            }
            match next {
                None => {
                    stats.max_bound_completed = Some(bound);
                    if !pruned {
                        stats.exhausted = true;
                        break 'bounds;
                    }
                    break;
                }
                Some((i, a)) => {
                    stack[i].chosen = a;
                    stack[i].tried.push(a);
                }
            }
            if stats.schedules >= cap || count_this_bound >= cap {
                break 'bounds;
            }
        }
    }
    if !stats.exhausted {
        let mut s = seed;
        for _ in 0..random_after {
            s = crate::util::mix(s, 0x5eed);
            // alternate: uniformly random choices / 1..5 preemptions at random decision indices
            let points = if s % 2 == 0 && stats.max_decisions > 2 {
                let k = 1 + (s >> 8) % 5;
                let mut v = vec![];
                let mut x = s;
                for _ in 0..k {
                    x = crate::util::mix(x, 0xC0FFEE);
                    v.push((x % stats.max_decisions as u64) as usize);
                }
                Some(v)
            } else {
                None
            };
            let (ds, end) = pool.run_with(make(), &[], Some(s), points, step_timeout);
            stats.schedules += 1;
            stats.random_schedules += 1;
            stats.max_preemptions_seen = stats.max_preemptions_seen.max(preemptions(&ds));
            if let Err(m) = check(&ds, &end) {
                return (stats, Some((ds.iter().map(|d| d.chosen).collect(), m)));
            }
        }
    }
    (stats, None)
}
