//! Async twins: stack builders for the async port, an interpreter mirroring exec.rs, snapshots,
//! and PendFS — a wrapper that makes trait futures and read_dir streams return Pending
//! according to a generated plan.

use crate::config::*;
use crate::exec::{classify, err_info, io_err_info, ErrInfo, Outcome};
use crate::model::*;
use crate::observe::Snap;
use crate::util::Scratch;
use async_std::io::prelude::SeekExt;
use async_std::io::{ReadExt, Write, WriteExt};
use async_trait::async_trait;
use futures::stream::{Stream, StreamExt};
use std::collections::BTreeSet;
use std::future::Future;
use std::pin::Pin;
use std::sync::atomic::{AtomicU64, Ordering};
use std::sync::Arc;
use std::task::{Context, Poll};
use std::time::SystemTime;
use vfs::async_vfs::{AsyncAltrootFS, AsyncFileSystem, AsyncMemoryFS, AsyncOverlayFS, AsyncPhysicalFS, AsyncVfsPath, SeekAndRead};
use vfs::{VfsFileType, VfsMetadata, VfsResult};

// ---------------------------------------------------------------------------------------------
// Pending plan
// ---------------------------------------------------------------------------------------------

#[derive(Debug)]
pub struct PendPlan {
    seed: u64,
    cursor: AtomicU64,
    pub pends_total: AtomicU64,
    pub pends_read_dir: AtomicU64,
    pub pends_metadata: AtomicU64,
    pub pends_stream_items: AtomicU64,
    /// fault injection (C20 on the async port): trait calls are counted while armed, and the
    /// call with index `fail_at` fails with an I/O error after its Pending returns
    pub armed: std::sync::atomic::AtomicBool,
    pub calls: AtomicU64,
    pub fail_at: std::sync::atomic::AtomicI64,
    pub fired: std::sync::Mutex<Option<String>>,
}

impl PendPlan {
    pub fn arm(&self, fail_at: i64) {
        self.calls.store(0, Ordering::SeqCst);
        self.fail_at.store(fail_at, Ordering::SeqCst);
        *self.fired.lock().unwrap() = None;
        self.armed.store(true, Ordering::SeqCst);
    }
    pub fn disarm(&self) -> u64 {
        self.armed.store(false, Ordering::SeqCst);
        self.calls.load(Ordering::SeqCst)
    }
    pub fn new(seed: u64) -> Arc<PendPlan> {
        Arc::new(PendPlan {
            seed,
            cursor: AtomicU64::new(0),
            pends_total: AtomicU64::new(0),
            pends_read_dir: AtomicU64::new(0),
            pends_metadata: AtomicU64::new(0),
            pends_stream_items: AtomicU64::new(0),
            armed: std::sync::atomic::AtomicBool::new(false),
            calls: AtomicU64::new(0),
            fail_at: std::sync::atomic::AtomicI64::new(-1),
            fired: std::sync::Mutex::new(None),
        })
    }
    /// how many times the next await point returns Pending (0..=3)
    fn next(&self) -> u8 {
        let c = self.cursor.fetch_add(1, Ordering::Relaxed);
        let x = crate::util::mix(self.seed, c);
        // half of the points are ready at once
        match x % 8 {
            0..=3 => 0,
            4 | 5 => 1,
            6 => 2,
            _ => 3,
        }
    }
}

struct PendN {
    left: u8,
}

impl Future for PendN {
    type Output = ();
    fn poll(mut self: Pin<&mut Self>, cx: &mut Context<'_>) -> Poll<()> {
        if self.left == 0 {
            Poll::Ready(())
        } else {
            self.left -= 1;
            cx.waker().wake_by_ref();
            Poll::Pending
        }
    }
}

#[derive(Debug)]
pub struct PendFS {
    pub inner: Arc<dyn AsyncFileSystem>,
    pub plan: Arc<PendPlan>,
}

impl PendFS {
    async fn pend(&self, method: &'static str) {
        let n = self.plan.next();
        if n > 0 {
            self.plan.pends_total.fetch_add(n as u64, Ordering::Relaxed);
            match method {
                "read_dir" => {
                    self.plan.pends_read_dir.fetch_add(n as u64, Ordering::Relaxed);
                }
                "metadata" => {
                    self.plan.pends_metadata.fetch_add(n as u64, Ordering::Relaxed);
                }
                _ => {}
            }
        }
        PendN { left: n }.await
    }
    /// Pending per the plan, then possibly the injected fault
    async fn gate(&self, method: &'static str, path: &str) -> VfsResult<()> {
        self.pend(method).await;
        if self.plan.armed.load(Ordering::SeqCst) {
            let c = self.plan.calls.fetch_add(1, Ordering::SeqCst) as i64;
            if c == self.plan.fail_at.load(Ordering::SeqCst) {
                *self.plan.fired.lock().unwrap() = Some(format!("{}('{}')", method, path));
                return Err(vfs::VfsError::from(std::io::Error::new(std::io::ErrorKind::Other, "injected fault")));
            }
        }
        Ok(())
    }
}

struct PendStream {
    inner: Box<dyn Unpin + Stream<Item = String> + Send>,
    plan: Arc<PendPlan>,
    left: Option<u8>,
}

impl Stream for PendStream {
    type Item = String;
    fn poll_next(mut self: Pin<&mut Self>, cx: &mut Context<'_>) -> Poll<Option<String>> {
        if self.left.is_none() {
            let n = self.plan.next();
            self.left = Some(n);
            if n > 0 {
                self.plan.pends_stream_items.fetch_add(n as u64, Ordering::Relaxed);
                self.plan.pends_total.fetch_add(n as u64, Ordering::Relaxed);
            }
        }
        if let Some(n) = self.left {
            if n > 0 {
                self.left = Some(n - 1);
                cx.waker().wake_by_ref();
                return Poll::Pending;
            }
        }
        match self.inner.poll_next_unpin(cx) {
            Poll::Ready(x) => {
                self.left = None;
                Poll::Ready(x)
            }
            Poll::Pending => Poll::Pending,
        }
    }
}

#[async_trait]
impl AsyncFileSystem for PendFS {
    async fn read_dir(&self, path: &str) -> VfsResult<Box<dyn Unpin + Stream<Item = String> + Send>> {
        self.gate("read_dir", path).await?;
        let inner = self.inner.read_dir(path).await?;
        Ok(Box::new(PendStream { inner, plan: self.plan.clone(), left: None }))
    }
    async fn create_dir(&self, path: &str) -> VfsResult<()> {
        self.gate("create_dir", path).await?;
        self.inner.create_dir(path).await
    }
    async fn open_file(&self, path: &str) -> VfsResult<Box<dyn SeekAndRead + Send + Unpin>> {
        self.gate("open_file", path).await?;
        self.inner.open_file(path).await
    }
    async fn create_file(&self, path: &str) -> VfsResult<Box<dyn Write + Send + Unpin>> {
        self.gate("create_file", path).await?;
        self.inner.create_file(path).await
    }
    async fn append_file(&self, path: &str) -> VfsResult<Box<dyn Write + Send + Unpin>> {
        self.gate("append_file", path).await?;
        self.inner.append_file(path).await
    }
    async fn metadata(&self, path: &str) -> VfsResult<VfsMetadata> {
        self.gate("metadata", path).await?;
        self.inner.metadata(path).await
    }
    async fn set_creation_time(&self, path: &str, time: SystemTime) -> VfsResult<()> {
        self.inner.set_creation_time(path, time).await
    }
    async fn set_modification_time(&self, path: &str, time: SystemTime) -> VfsResult<()> {
        self.inner.set_modification_time(path, time).await
    }
    async fn set_access_time(&self, path: &str, time: SystemTime) -> VfsResult<()> {
        self.inner.set_access_time(path, time).await
    }
    async fn exists(&self, path: &str) -> VfsResult<bool> {
        self.gate("exists", path).await?;
        self.inner.exists(path).await
    }
    async fn remove_file(&self, path: &str) -> VfsResult<()> {
        self.gate("remove_file", path).await?;
        self.inner.remove_file(path).await
    }
    async fn remove_dir(&self, path: &str) -> VfsResult<()> {
        self.gate("remove_dir", path).await?;
        self.inner.remove_dir(path).await
    }
    async fn copy_file(&self, src: &str, dest: &str) -> VfsResult<()> {
        self.gate("copy_file", src).await?;
        self.inner.copy_file(src, dest).await
    }
    async fn move_file(&self, src: &str, dest: &str) -> VfsResult<()> {
        self.gate("move_file", src).await?;
        self.inner.move_file(src, dest).await
    }
    async fn move_dir(&self, src: &str, dest: &str) -> VfsResult<()> {
        self.gate("move_dir", src).await?;
        self.inner.move_dir(src, dest).await
    }
}

// ---------------------------------------------------------------------------------------------
// builders
// ---------------------------------------------------------------------------------------------

pub struct ABuilt {
    pub root: AsyncVfsPath,
    /// for a top-level overlay: the roots of its layers, upper first (like config::Built::layers)
    pub layers: Vec<AsyncVfsPath>,
    pub _scratch: Vec<Arc<Scratch>>,
}

fn leaf(cfg: &Cfg, scratch: &mut Vec<Arc<Scratch>>, plan: &Option<Arc<PendPlan>>) -> Result<AsyncVfsPath, String> {
    let fs: Arc<dyn AsyncFileSystem> = match cfg {
        Cfg::Mem => Arc::new(AsyncMemoryFS::new()),
        Cfg::Phys => {
            let s = Arc::new(Scratch::new("aphys"));
            let rootdir = s.dir.join("jail").join("root");
            std::fs::create_dir_all(&rootdir).map_err(|e| e.to_string())?;
            scratch.push(s);
            Arc::new(AsyncPhysicalFS::new(rootdir))
        }
        _ => unreachable!(),
    };
    Ok(match plan {
        Some(p) => AsyncVfsPath::new(PendFS { inner: fs, plan: p.clone() }),
        None => AsyncVfsPath::new(ArcFS(fs)),
    })
}

/// exact pass-through (the async counterpart of SharedFS)
#[derive(Debug)]
pub struct ArcFS(pub Arc<dyn AsyncFileSystem>);

#[async_trait]
impl AsyncFileSystem for ArcFS {
    async fn read_dir(&self, path: &str) -> VfsResult<Box<dyn Unpin + Stream<Item = String> + Send>> {
        self.0.read_dir(path).await
    }
    async fn create_dir(&self, path: &str) -> VfsResult<()> {
        self.0.create_dir(path).await
    }
    async fn open_file(&self, path: &str) -> VfsResult<Box<dyn SeekAndRead + Send + Unpin>> {
        self.0.open_file(path).await
    }
    async fn create_file(&self, path: &str) -> VfsResult<Box<dyn Write + Send + Unpin>> {
        self.0.create_file(path).await
    }
    async fn append_file(&self, path: &str) -> VfsResult<Box<dyn Write + Send + Unpin>> {
        self.0.append_file(path).await
    }
    async fn metadata(&self, path: &str) -> VfsResult<VfsMetadata> {
        self.0.metadata(path).await
    }
    async fn set_creation_time(&self, path: &str, time: SystemTime) -> VfsResult<()> {
        self.0.set_creation_time(path, time).await
    }
    async fn set_modification_time(&self, path: &str, time: SystemTime) -> VfsResult<()> {
        self.0.set_modification_time(path, time).await
    }
    async fn set_access_time(&self, path: &str, time: SystemTime) -> VfsResult<()> {
        self.0.set_access_time(path, time).await
    }
    async fn exists(&self, path: &str) -> VfsResult<bool> {
        self.0.exists(path).await
    }
    async fn remove_file(&self, path: &str) -> VfsResult<()> {
        self.0.remove_file(path).await
    }
    async fn remove_dir(&self, path: &str) -> VfsResult<()> {
        self.0.remove_dir(path).await
    }
    async fn copy_file(&self, src: &str, dest: &str) -> VfsResult<()> {
        self.0.copy_file(src, dest).await
    }
    async fn move_file(&self, src: &str, dest: &str) -> VfsResult<()> {
        self.0.move_file(src, dest).await
    }
    async fn move_dir(&self, src: &str, dest: &str) -> VfsResult<()> {
        self.0.move_dir(src, dest).await
    }
}

pub fn aat(root: &AsyncVfsPath, p: &str) -> Result<AsyncVfsPath, vfs::VfsError> {
    if p.is_empty() {
        Ok(root.clone())
    } else {
        root.join(&p[1..])
    }
}

fn abuild_inner<'a>(
    cfg: &'a Cfg,
    scratch: &'a mut Vec<Arc<Scratch>>,
    plan: &'a Option<Arc<PendPlan>>,
) -> Pin<Box<dyn Future<Output = Result<AsyncVfsPath, String>> + 'a>> {
    Box::pin(async move {
        match cfg {
            Cfg::Mem | Cfg::Phys => leaf(cfg, scratch, plan),
            Cfg::Emb => Err("the async port has no embedded filesystem".to_string()),
            Cfg::Alt(inner, depth) => {
                let under = abuild_inner(inner, scratch, plan).await?;
                let mut p = under.clone();
                for i in 0..*depth {
                    p = p.join(ALT_NAMES[i % ALT_NAMES.len()]).map_err(|e| e.to_string())?;
                }
                p.create_dir_all().await.map_err(|e| format!("async altroot prefix: {}", e))?;
                Ok(AsyncVfsPath::new(AsyncAltrootFS::new(p)))
            }
            Cfg::Ovl(ls) => {
                let mut roots = vec![];
                for l in ls {
                    roots.push(abuild_inner(l, scratch, plan).await?);
                }
                Ok(AsyncVfsPath::new(AsyncOverlayFS::new(&roots)))
            }
            Cfg::OvlSub(inner, n) => {
                let shared = abuild_inner(inner, scratch, plan).await?;
                let mut roots = vec![];
                for i in 0..(*n).clamp(1, 4) {
                    let l = shared.join(LAYER_DIRS[i]).map_err(|e| e.to_string())?;
                    l.create_dir_all().await.map_err(|e| format!("layer dir: {}", e))?;
                    roots.push(l);
                }
                Ok(AsyncVfsPath::new(AsyncOverlayFS::new(&roots)))
            }
        }
    })
}

async fn awrite_entry(root: &AsyncVfsPath, p: &str, n: &Node) -> Result<(), String> {
    let vp = aat(root, p).map_err(|e| e.to_string())?;
    match n {
        Node::Dir => vp.create_dir_all().await.map_err(|e| format!("async prepop dir '{}': {}", p, e)),
        Node::File(b) => {
            vp.parent().create_dir_all().await.map_err(|e| format!("async prepop parent '{}': {}", p, e))?;
            let mut f = vp.create_file().await.map_err(|e| format!("async prepop create '{}': {}", p, e))?;
            f.write_all(b).await.map_err(|e| e.to_string())?;
            f.flush().await.map_err(|e| e.to_string())?;
            drop(f);
            Ok(())
        }
    }
}

/// Async stack with the same shape and pre-population as config::build.
/// Pre-population of overlay layers is written through the layers' own roots.
pub async fn abuild(cfg: &Cfg, prepop: &Prepop, plan: Option<Arc<PendPlan>>) -> Result<ABuilt, String> {
    let mut scratch = vec![];
    let mut alts: Vec<usize> = vec![];
    let mut cur = cfg;
    while let Cfg::Alt(inner, d) = cur {
        alts.push(*d);
        cur = inner;
    }
    let mut prefix = String::new();
    for d in alts.iter().rev() {
        for i in 0..*d {
            prefix.push('/');
            prefix.push_str(ALT_NAMES[i % ALT_NAMES.len()]);
        }
    }
    let mut layers: Vec<AsyncVfsPath> = vec![];
    let core = match cur {
        Cfg::Ovl(ls) => {
            let mut roots = vec![];
            for l in ls {
                roots.push(abuild_inner(l, &mut scratch, &plan).await?);
            }
            for (li, p, n) in prepop {
                let li = *li % roots.len();
                awrite_entry(&roots[li], &format!("{}{}", prefix, p), n).await?;
            }
            layers = roots.clone();
            AsyncVfsPath::new(AsyncOverlayFS::new(&roots))
        }
        Cfg::OvlSub(inner, n) => {
            let n = (*n).clamp(1, 4);
            let shared = abuild_inner(inner, &mut scratch, &plan).await?;
            let mut roots = vec![];
            for i in 0..n {
                let l = shared.join(LAYER_DIRS[i]).map_err(|e| e.to_string())?;
                l.create_dir_all().await.map_err(|e| e.to_string())?;
                roots.push(l);
            }
            for (li, p, node) in prepop {
                let li = *li % n;
                let view = AsyncVfsPath::new(AsyncAltrootFS::new(roots[li].clone()));
                awrite_entry(&view, &format!("{}{}", prefix, p), node).await?;
            }
            layers = roots.iter().map(|r| AsyncVfsPath::new(AsyncAltrootFS::new(r.clone()))).collect();
            AsyncVfsPath::new(AsyncOverlayFS::new(&roots))
        }
        other => abuild_inner(other, &mut scratch, &plan).await?,
    };
    let mut root = core;
    for d in alts.iter().rev() {
        let mut p = root.clone();
        for i in 0..*d {
            p = p.join(ALT_NAMES[i % ALT_NAMES.len()]).map_err(|e| e.to_string())?;
        }
        p.create_dir_all().await.map_err(|e| format!("async altroot prefix: {}", e))?;
        root = AsyncVfsPath::new(AsyncAltrootFS::new(p));
    }
    if !matches!(cur, Cfg::Ovl(_) | Cfg::OvlSub(..)) {
        for (_, p, n) in prepop {
            awrite_entry(&root, p, n).await?;
        }
    }
    Ok(ABuilt { root, layers, _scratch: scratch })
}

// ---------------------------------------------------------------------------------------------
// interpreter
// ---------------------------------------------------------------------------------------------

fn e(err: &vfs::VfsError, stage: &'static str) -> Outcome {
    Outcome::Err(err_info(err, stage))
}

macro_rules! atry {
    ($e:expr, $stage:expr) => {
        match $e {
            Ok(v) => v,
            Err(err) => return e(&err, $stage),
        }
    };
}

pub async fn aexec(root: &AsyncVfsPath, op: &Op) -> Outcome {
    let p = atry!(aat(root, op.target()), "join");
    match op {
        Op::CreateDir(_) => {
            atry!(p.create_dir().await, "call");
            Outcome::Ok(Val::Unit)
        }
        Op::CreateFile(path, b) => {
            let mut f = atry!(p.create_file().await, "open");
            if let Err(x) = f.write_all(b).await {
                return Outcome::Err(io_err_info(&x, "write", path));
            }
            if let Err(x) = f.flush().await {
                return Outcome::Err(io_err_info(&x, "write", path));
            }
            drop(f);
            Outcome::Ok(Val::Unit)
        }
        Op::Append(path, b) => {
            let mut f = atry!(p.append_file().await, "open");
            if let Err(x) = f.write_all(b).await {
                return Outcome::Err(io_err_info(&x, "write", path));
            }
            if let Err(x) = f.flush().await {
                return Outcome::Err(io_err_info(&x, "write", path));
            }
            drop(f);
            Outcome::Ok(Val::Unit)
        }
        Op::RemoveFile(_) => {
            atry!(p.remove_file().await, "call");
            Outcome::Ok(Val::Unit)
        }
        Op::RemoveDir(_) => {
            atry!(p.remove_dir().await, "call");
            Outcome::Ok(Val::Unit)
        }
        Op::Read(path) => {
            let mut f = atry!(p.open_file().await, "open");
            let mut v = Vec::new();
            if let Err(x) = f.read_to_end(&mut v).await {
                return Outcome::Err(io_err_info(&x, "read", path));
            }
            Outcome::Ok(Val::Bytes(Arc::new(v)))
        }
        Op::ReadDir(_) => {
            let mut it = atry!(p.read_dir().await, "call");
            let mut names = BTreeSet::new();
            let prefix = format!("{}/", p.as_str());
            while let Some(c) = it.next().await {
                let s = c.as_str().to_string();
                let name = if s.starts_with(&prefix) { s[prefix.len()..].to_string() } else { format!("<<foreign:{}>>", s) };
                if !names.insert(name.clone()) {
                    names.insert(format!("<<dup:{}>>", name));
                }
            }
            Outcome::Ok(Val::Names(names))
        }
        Op::Metadata(_) => {
            let m = atry!(p.metadata().await, "call");
            Outcome::Ok(Val::Meta { is_dir: m.file_type == VfsFileType::Directory, len: m.len })
        }
        Op::Exists(_) => Outcome::Ok(Val::Bool(atry!(p.exists().await, "call"))),
        Op::IsFile(_) => Outcome::Ok(Val::Bool(atry!(p.is_file().await, "call"))),
        Op::IsDir(_) => Outcome::Ok(Val::Bool(atry!(p.is_dir().await, "call"))),
        Op::CreateDirAll(_) => {
            atry!(p.create_dir_all().await, "call");
            Outcome::Ok(Val::Unit)
        }
        Op::RemoveDirAll(_) => {
            atry!(p.remove_dir_all().await, "call");
            Outcome::Ok(Val::Unit)
        }
        Op::ReadToString(_) => Outcome::Ok(Val::Str(atry!(p.read_to_string().await, "call"))),
        Op::WalkDir(_) => {
            let mut it = atry!(p.walk_dir().await, "call");
            let mut out = Vec::new();
            while let Some(item) = it.next().await {
                match item {
                    Ok(x) => out.push(x.as_str().to_string()),
                    Err(err) => return e(&err, "item"),
                }
            }
            Outcome::Ok(Val::Walk(out))
        }
        Op::CopyFile(_, d) => {
            let dp = atry!(aat(root, d), "join");
            atry!(p.copy_file(&dp).await, "call");
            Outcome::Ok(Val::Unit)
        }
        Op::MoveFile(_, d) => {
            let dp = atry!(aat(root, d), "join");
            atry!(p.move_file(&dp).await, "call");
            Outcome::Ok(Val::Unit)
        }
        Op::CopyDir(_, d) => {
            let dp = atry!(aat(root, d), "join");
            Outcome::Ok(Val::Count(atry!(p.copy_dir(&dp).await, "call")))
        }
        Op::MoveDir(_, d) => {
            let dp = atry!(aat(root, d), "join");
            atry!(p.move_dir(&dp).await, "call");
            Outcome::Ok(Val::Unit)
        }
        Op::SetTime(_, f, s, n) => {
            let t = crate::exec::time_of(*s, *n);
            match f {
                TimeField::Created => atry!(p.set_creation_time(t).await, "call"),
                TimeField::Modified => atry!(p.set_modification_time(t).await, "call"),
                TimeField::Accessed => atry!(p.set_access_time(t).await, "call"),
            }
            Outcome::Ok(Val::Unit)
        }
    }
}

pub async fn asnapshot(root: &AsyncVfsPath) -> Snap {
    let mut snap = Snap { tree: Tree::new(), problems: vec![] };
    let mut queue = vec![String::new()];
    let mut guard = 0;
    while let Some(d) = queue.pop() {
        guard += 1;
        if guard > 20_000 {
            snap.problems.push("async snapshot aborted".into());
            break;
        }
        let dp = match aat(root, &d) {
            Ok(p) => p,
            Err(err) => {
                snap.problems.push(format!("join('{}'): {}", d, err));
                continue;
            }
        };
        let mut it = match dp.read_dir().await {
            Ok(it) => it,
            Err(err) => {
                snap.problems.push(format!("async read_dir('{}') failed on a listed directory: {}", d, err));
                continue;
            }
        };
        let prefix = format!("{}/", d);
        let mut seen = BTreeSet::new();
        while let Some(c) = it.next().await {
            let cs = c.as_str().to_string();
            if !cs.starts_with(&prefix) || cs[prefix.len()..].contains('/') || cs.len() == prefix.len() {
                snap.problems.push(format!("async read_dir('{}') yielded non-child '{}'", d, cs));
                continue;
            }
            if !seen.insert(cs.clone()) {
                snap.problems.push(format!("async read_dir('{}') listed '{}' twice", d, cs));
                continue;
            }
            match c.metadata().await {
                Ok(m) => {
                    if m.file_type == VfsFileType::Directory {
                        snap.tree.m.insert(cs.clone(), Node::Dir);
                        queue.push(cs);
                    } else {
                        let mut bytes = vec![];
                        match c.open_file().await {
                            Ok(mut f) => {
                                if let Err(x) = f.read_to_end(&mut bytes).await {
                                    snap.problems.push(format!("async read of '{}' failed: {}", cs, x));
                                }
                            }
                            Err(err) => snap.problems.push(format!("async open_file('{}') failed: {}", cs, err)),
                        }
                        if bytes.len() as u64 != m.len {
                            snap.problems.push(format!("async file '{}': metadata len {} but {} bytes read", cs, m.len, bytes.len()));
                        }
                        snap.tree.m.insert(cs, Node::File(Arc::new(bytes)));
                    }
                }
                Err(err) => snap.problems.push(format!("async listed entry '{}' has no metadata: {}", cs, err)),
            }
        }
    }
    snap
}

/// Run a read script on an async read handle; returns the per-op results in the same shape as
/// the sync runner produces, for differential comparison.
pub async fn arun_read_script(
    handle: &mut (dyn SeekAndRead + Send + Unpin),
    len: u64,
    script: &[crate::handles::ROp],
    extremes: bool,
) -> Vec<Result<(u64, Vec<u8>), String>> {
    use crate::handles::*;
    let mut out = vec![];
    for op in script {
        match op {
            ROp::Seek(w, o) => {
                let sf = seek_from(w, o, len, extremes, None);
                let r = handle.seek(sf).await;
                out.push(r.map(|p| (p, vec![])).map_err(|e| format!("{:?}", e.kind())));
            }
            ROp::ReadToEnd(_) => {
                let mut v = vec![];
                let r = handle.read_to_end(&mut v).await;
                out.push(r.map(|n| (n as u64, v)).map_err(|e| format!("{:?}", e.kind())));
            }
            ROp::Drain(k) => {
                let piece = drain_piece(*k, len);
                let mut v = vec![];
                let mut buf = [0u8; 2048];
                let mut err = None;
                for _ in 0..400_000 {
                    match handle.read(&mut buf[..piece]).await {
                        Ok(0) => break,
                        Ok(n) => v.extend_from_slice(&buf[..n.min(piece)]),
                        Err(e) => {
                            err = Some(format!("{:?}", e.kind()));
                            break;
                        }
                    }
                }
                out.push(match err {
                    Some(e) => Err(e),
                    None => Ok((v.len() as u64, v)),
                });
            }
            ROp::Read(k, n) | ROp::ReadExact(k, n) => {
                let want = read_size(*k, *n, len as usize);
                let mut buf = vec![0u8; want];
                let mut got = 0usize;
                let mut err = None;
                while got < want {
                    match handle.read(&mut buf[got..]).await {
                        Ok(0) => break,
                        Ok(x) => got += x,
                        Err(e) => {
                            err = Some(format!("{:?}", e.kind()));
                            break;
                        }
                    }
                }
                buf.truncate(got);
                out.push(match err {
                    Some(e) => Err(e),
                    None => Ok((got as u64, buf)),
                });
            }
        }
    }
    out
}

/// Silence fd 1 while `f` runs: the async read_dir of the library prints every entry with
/// println!. Returns f's result.
pub fn with_stdout_silenced<T>(f: impl FnOnce() -> T) -> T {
    use std::io::Write as _;
    use std::os::unix::io::AsRawFd;
    /// restores fd 1 also when `f` unwinds (a panic must not swallow the VIOLATION line)
    struct Restore(i32);
    impl Drop for Restore {
        fn drop(&mut self) {
            let _ = std::io::stdout().flush();
            if self.0 >= 0 {
                unsafe {
                    libc::dup2(self.0, 1);
                    libc::close(self.0);
                }
            }
        }
    }
    let _ = std::io::stdout().flush();
    let devnull = std::fs::OpenOptions::new().write(true).open("/dev/null").ok();
    let saved = unsafe { libc::dup(1) };
    let _restore = Restore(saved);
    if let Some(dn) = &devnull {
        unsafe {
            libc::dup2(dn.as_raw_fd(), 1);
        }
    }
    f()
}

#[allow(dead_code)]
fn _unused(_: ErrInfo) {
    let _ = classify;
}
