use std::time::Instant;
use vv::engine::*;

fn usage() -> ! {
    eprintln!("usage: check <C01..C20> <quick|thorough> | check replay <file>");
    std::process::exit(2)
}

fn main() {
    vv::util::install_panic_hook();
    let args: Vec<String> = std::env::args().collect();
    if args.len() < 3 || (args[1] == "fuzzreplay" && args.len() < 4) {
        usage();
    }
    let seed: u64 = std::env::var("VERIF_SEED").ok().and_then(|s| s.trim().parse().ok()).unwrap_or(0);
    let shards: usize = std::env::var("VERIF_SHARDS").ok().and_then(|s| s.parse().ok()).unwrap_or(16);
    let code = if args[1] == "fuzzreplay" {
        // check fuzzreplay <target> <artifact>: raw libFuzzer input through the same decoder and oracle
        let data = std::fs::read(&args[3]).expect("artifact readable");
        let prop = match args[2].as_str() {
            "fuzz_join" => "C06",
            "fuzz_handles" => "C14",
            _ => "C01",
        };
        match vv::util::guarded(|| vv::fuzzdec::replay(&args[2], &data)) {
            Ok(Ok(())) => {
                println!("REPLAY property={} passed (no violation on this tree)", prop);
                0
            }
            Ok(Err(m)) => {
                println!("--- fuzz input reproduces ---\n{}", m);
                println!("VIOLATION property={} replay={}", prop, args[3]);
                1
            }
            Err(p) => {
                println!("--- fuzz input panics ---\n{}", p);
                println!("VIOLATION property={} replay={}", prop, args[3]);
                1
            }
        }
    } else if args[1] == "replay" {
        let raw = std::fs::read(&args[2]).expect("replay file readable");
        let fname = std::path::Path::new(&args[2]).file_name().map(|f| f.to_string_lossy().into_owned()).unwrap_or_default();
        if fname.starts_with("fuzz_") && serde_json::from_slice::<serde_json::Value>(&raw).is_err() {
            // raw libFuzzer artifact saved as <target>-<hash>.bin
            let target = fname.split('-').next().unwrap_or("").to_string();
            let prop = match target.as_str() {
                "fuzz_join" => "C06",
                "fuzz_handles" => "C14",
                _ => "C01",
            };
            let code = match vv::util::guarded(|| vv::fuzzdec::replay(&target, &raw)) {
                Ok(Ok(())) => {
                    println!("REPLAY property={} passed (no violation on this tree)", prop);
                    0
                }
                Ok(Err(m)) | Err(m) => {
                    println!("--- fuzz input reproduces ---\n{}", m);
                    println!("VIOLATION property={} replay={}", prop, args[2]);
                    1
                }
            };
            vv::util::cleanup_scratch_base();
            std::process::exit(code);
        }
        let text = String::from_utf8_lossy(&raw).into_owned();
        let v: serde_json::Value = serde_json::from_str(&text).expect("replay file is JSON");
        let id = v.get("property").and_then(|p| p.as_str()).unwrap_or("").to_string();
        match vv::props::replay(&id, &v) {
            Ok(()) => {
                println!("REPLAY property={} passed (no violation on this tree)", id);
                0
            }
            Err(f) => {
                println!("--- replay reproduces ---\n{}", f.message);
                println!("VIOLATION property={} replay={}", id, args[2]);
                1
            }
        }
    } else {
        let tier = match args[2].as_str() {
            "quick" => Tier::Quick,
            "thorough" => Tier::Thorough,
            _ => usage(),
        };
        let ctx = RunCtx { id: args[1].clone(), tier, seed, shards, start: Instant::now(), shrink_iters: 4000 };
        vv::props::run(&ctx)
    };
    vv::util::cleanup_scratch_base();
    std::process::exit(code);
}
