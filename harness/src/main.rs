use std::time::Instant;
use vv::engine::*;

fn usage() -> ! {
    eprintln!("usage: check <C01..C20> <quick|thorough> | check replay <file>");
    std::process::exit(2)
}

fn main() {
    vv::util::install_panic_hook();
    let args: Vec<String> = std::env::args().collect();
    if args.len() < 3 {
        usage();
    }
    let seed: u64 = std::env::var("VERIF_SEED").ok().and_then(|s| s.trim().parse().ok()).unwrap_or(0);
    let shards: usize = std::env::var("VERIF_SHARDS").ok().and_then(|s| s.parse().ok()).unwrap_or(16);
    let code = if args[1] == "replay" {
        let text = std::fs::read_to_string(&args[2]).expect("replay file readable");
        let v: serde_json::Value = serde_json::from_str(&text).expect("replay file is JSON");
        let id = v.get("property").and_then(|p| p.as_str()).unwrap_or("").to_string();
        match vv::props::replay(&id, &v) {
            Ok(()) => {
                println!("REPLAY property={} passed (no violation on this tree)", id);
                0
            }
            Err(f) => {
                println!("--- replay reproduces ---\n{}", f.message);
                println!("VIOLATION property={} replay={}", id, args[2]);
                1
            }
        }
    } else {
        let tier = match args[2].as_str() {
            "quick" => Tier::Quick,
            "thorough" => Tier::Thorough,
            _ => usage(),
        };
        let ctx = RunCtx { id: args[1].clone(), tier, seed, shards, start: Instant::now(), shrink_iters: 4000 };
        vv::props::run(&ctx)
    };
    vv::util::cleanup_scratch_base();
    std::process::exit(code);
}
