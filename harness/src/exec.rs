//! Interpreter: run a resolved Op on a real filesystem (through VfsPath) and classify the outcome.

use crate::model::*;
use crate::util::guarded;
use std::collections::BTreeSet;
use std::io::{Read, Write};
use std::sync::Arc;
use std::time::{Duration, SystemTime};
use vfs::error::VfsErrorKind;
use vfs::{VfsError, VfsFileType, VfsPath};

#[derive(Clone, Debug, PartialEq)]
pub struct ErrInfo {
    pub class: ErrClass,
    pub path: String,
    pub display: String,
    pub kind_dbg: String,
    /// which sub-step of a session failed ("open", "read", "write", "call", "join", "item")
    pub stage: &'static str,
}

#[derive(Clone, Debug, PartialEq)]
pub enum Outcome {
    Ok(Val),
    Err(ErrInfo),
    Panic(String),
}

impl Outcome {
    pub fn is_ok(&self) -> bool {
        matches!(self, Outcome::Ok(_))
    }
    pub fn render(&self) -> String {
        match self {
            Outcome::Ok(v) => format!("Ok({})", render_val(v)),
            Outcome::Err(e) => format!(
                "Err[{:?} at {} path='{}' kind={} | {}]",
                e.class, e.stage, e.path, e.kind_dbg, e.display
            ),
            Outcome::Panic(m) => format!("PANIC({})", m),
        }
    }
    pub fn class_str(&self) -> String {
        match self {
            Outcome::Ok(_) => "ok".into(),
            Outcome::Err(e) => format!("err:{:?}", e.class),
            Outcome::Panic(_) => "panic".into(),
        }
    }
}

pub fn render_val(v: &Val) -> String {
    match v {
        Val::Unit => "()".into(),
        Val::Bool(b) => b.to_string(),
        Val::Bytes(b) => crate::util::show_bytes(b),
        Val::Names(n) => format!("{:?}", n),
        Val::Meta { is_dir, len } => format!("meta(dir={}, len={})", is_dir, len),
        Val::Str(s) => crate::util::show_bytes(s.as_bytes()),
        Val::Count(c) => format!("count={}", c),
        Val::Walk(w) => format!("walk{:?}", w),
    }
}

pub fn classify(kind: &VfsErrorKind) -> ErrClass {
    match kind {
        VfsErrorKind::FileNotFound => ErrClass::NotFound,
        VfsErrorKind::FileExists => ErrClass::FileExists,
        VfsErrorKind::DirectoryExists => ErrClass::DirExists,
        VfsErrorKind::InvalidPath => ErrClass::InvalidPath,
        VfsErrorKind::NotSupported => ErrClass::NotSupported,
        _ => ErrClass::Other,
    }
}

pub fn err_info(e: &VfsError, stage: &'static str) -> ErrInfo {
    let kd = format!("{:?}", e.kind());
    ErrInfo {
        class: classify(e.kind()),
        path: e.path().clone(),
        display: e.to_string(),
        kind_dbg: kd.chars().take(120).collect(),
        stage,
    }
}

pub fn io_err_info(e: &std::io::Error, stage: &'static str, path: &str) -> ErrInfo {
    ErrInfo {
        class: if e.kind() == std::io::ErrorKind::NotFound {
            ErrClass::NotFound
        } else {
            ErrClass::Other
        },
        // an io::Error from a handle carries no vfs path; record the caller's own
        path: path.to_string(),
        display: e.to_string(),
        kind_dbg: format!("io::{:?}", e.kind()),
        stage,
    }
}

/// canonical path -> VfsPath (components never contain '/', '.' or '..')
pub fn at(root: &VfsPath, p: &str) -> Result<VfsPath, VfsError> {
    if p.is_empty() {
        Ok(root.clone())
    } else {
        root.join(&p[1..])
    }
}

pub fn time_of(secs: i64, nanos: u32) -> SystemTime {
    // (checked: values the platform cannot represent fall back to the epoch instead of panicking
    // inside the harness)
    let t = if secs >= 0 {
        SystemTime::UNIX_EPOCH.checked_add(Duration::new(secs as u64, nanos))
    } else {
        SystemTime::UNIX_EPOCH.checked_sub(Duration::new(secs.unsigned_abs(), 0)).and_then(|t| t.checked_add(Duration::new(0, nanos)))
    };
    t.unwrap_or(SystemTime::UNIX_EPOCH)
}

macro_rules! tryv {
    ($e:expr, $stage:expr) => {
        match $e {
            Ok(v) => v,
            Err(e) => return Outcome::Err(err_info(&e, $stage)),
        }
    };
}

fn exec_inner(root: &VfsPath, dest_root: &VfsPath, op: &Op) -> Outcome {
    let p = tryv!(at(root, op.target()), "join");
    let dp = match op.dest() {
        Some(d) => Some(tryv!(at(dest_root, d), "join")),
        None => None,
    };
    exec_on_inner(&p, dp.as_ref(), op)
}

/// Execute `op` on already-built paths (the strings inside `op` are only used for rendering).
pub fn exec_on(p: &VfsPath, dp: Option<&VfsPath>, op: &Op) -> Outcome {
    match guarded(|| exec_on_inner(p, dp, op)) {
        Ok(o) => o,
        Err(m) => Outcome::Panic(m),
    }
}

fn exec_on_inner(p: &VfsPath, dp: Option<&VfsPath>, op: &Op) -> Outcome {
    let missing_dest = || Outcome::Err(ErrInfo { class: ErrClass::Other, path: String::new(), display: "no destination".into(), kind_dbg: String::new(), stage: "join" });
    match op {
        Op::CreateDir(_) => {
            tryv!(p.create_dir(), "call");
            Outcome::Ok(Val::Unit)
        }
        Op::CreateFile(path, b) => {
            let mut f = tryv!(p.create_file(), "open");
            if let Err(e) = f.write_all(b) {
                return Outcome::Err(io_err_info(&e, "write", path));
            }
            drop(f);
            Outcome::Ok(Val::Unit)
        }
        Op::Append(path, b) => {
            let mut f = tryv!(p.append_file(), "open");
            if let Err(e) = f.write_all(b) {
                return Outcome::Err(io_err_info(&e, "write", path));
            }
            drop(f);
            Outcome::Ok(Val::Unit)
        }
        Op::RemoveFile(_) => {
            tryv!(p.remove_file(), "call");
            Outcome::Ok(Val::Unit)
        }
        Op::RemoveDir(_) => {
            tryv!(p.remove_dir(), "call");
            Outcome::Ok(Val::Unit)
        }
        Op::Read(path) => {
            let mut f = tryv!(p.open_file(), "open");
            let mut v = Vec::new();
            if let Err(e) = f.read_to_end(&mut v) {
                return Outcome::Err(io_err_info(&e, "read", path));
            }
            Outcome::Ok(Val::Bytes(Arc::new(v)))
        }
        Op::ReadDir(_) => {
            let it = tryv!(p.read_dir(), "call");
            let mut names = BTreeSet::new();
            let prefix = format!("{}/", p.as_str());
            for c in it {
                let s = c.as_str().to_string();
                let name = if s.starts_with(&prefix) { s[prefix.len()..].to_string() } else { format!("<<foreign:{}>>", s) };
                if !names.insert(name.clone()) {
                    names.insert(format!("<<dup:{}>>", name));
                }
            }
            Outcome::Ok(Val::Names(names))
        }
        Op::Metadata(_) => {
            let m = tryv!(p.metadata(), "call");
            Outcome::Ok(Val::Meta { is_dir: m.file_type == VfsFileType::Directory, len: m.len })
        }
        Op::Exists(_) => Outcome::Ok(Val::Bool(tryv!(p.exists(), "call"))),
        Op::IsFile(_) => Outcome::Ok(Val::Bool(tryv!(p.is_file(), "call"))),
        Op::IsDir(_) => Outcome::Ok(Val::Bool(tryv!(p.is_dir(), "call"))),
        Op::CreateDirAll(_) => {
            tryv!(p.create_dir_all(), "call");
            Outcome::Ok(Val::Unit)
        }
        Op::RemoveDirAll(_) => {
            tryv!(p.remove_dir_all(), "call");
            Outcome::Ok(Val::Unit)
        }
        Op::ReadToString(_) => Outcome::Ok(Val::Str(tryv!(p.read_to_string(), "call"))),
        Op::WalkDir(_) => {
            let it = tryv!(p.walk_dir(), "call");
            let mut out = Vec::new();
            for item in it {
                match item {
                    Ok(x) => out.push(x.as_str().to_string()),
                    Err(e) => return Outcome::Err(err_info(&e, "item")),
                }
            }
            Outcome::Ok(Val::Walk(out))
        }
        Op::CopyFile(..) => {
            let Some(dp) = dp else { return missing_dest() };
            tryv!(p.copy_file(dp), "call");
            Outcome::Ok(Val::Unit)
        }
        Op::MoveFile(..) => {
            let Some(dp) = dp else { return missing_dest() };
            tryv!(p.move_file(dp), "call");
            Outcome::Ok(Val::Unit)
        }
        Op::CopyDir(..) => {
            let Some(dp) = dp else { return missing_dest() };
            Outcome::Ok(Val::Count(tryv!(p.copy_dir(dp), "call")))
        }
        Op::MoveDir(..) => {
            let Some(dp) = dp else { return missing_dest() };
            tryv!(p.move_dir(dp), "call");
            Outcome::Ok(Val::Unit)
        }
        Op::SetTime(_, f, s, n) => {
            let t = time_of(*s, *n);
            match f {
                TimeField::Created => tryv!(p.set_creation_time(t), "call"),
                TimeField::Modified => tryv!(p.set_modification_time(t), "call"),
                TimeField::Accessed => tryv!(p.set_access_time(t), "call"),
            }
            Outcome::Ok(Val::Unit)
        }
    }
}

/// Execute `op` with source on `root` and destination (for transfers) on `dest_root`.
pub fn exec2(root: &VfsPath, dest_root: &VfsPath, op: &Op) -> Outcome {
    match guarded(|| exec_inner(root, dest_root, op)) {
        Ok(o) => o,
        Err(m) => Outcome::Panic(m),
    }
}

pub fn exec(root: &VfsPath, op: &Op) -> Outcome {
    exec2(root, root, op)
}

/// Does the outcome satisfy the model's expectation?  Returns a description of the mismatch.
pub fn judge(expect: &Expect, out: &Outcome) -> Result<(), String> {
    match (expect, out) {
        (_, Outcome::Panic(m)) => Err(format!("panicked: {}", m)),
        (Expect::Unspecified, _) => Ok(()),
        (Expect::Ok(ev), Outcome::Ok(v)) => {
            let same = match (ev, v) {
                (Val::Walk(a), Val::Walk(b)) => {
                    // compared as multisets here; order validity is judged by walk_order_ok
                    let mut x = a.clone();
                    let mut y = b.clone();
                    x.sort();
                    y.sort();
                    x == y && walk_order_ok(b).is_ok()
                }
                _ => ev == v,
            };
            if same {
                Ok(())
            } else {
                Err(format!("expected Ok({}) but got Ok({})", render_val(ev), render_val(v)))
            }
        }
        (Expect::Ok(ev), Outcome::Err(_)) => {
            Err(format!("expected Ok({}) but got {}", render_val(ev), out.render()))
        }
        (Expect::Err(_), Outcome::Ok(v)) => {
            Err(format!("expected an error but got Ok({})", render_val(v)))
        }
        (Expect::Err(req), Outcome::Err(e)) => {
            let good = match req {
                ErrReq::Any => true,
                ErrReq::NotFound => e.class == ErrClass::NotFound,
                ErrReq::FileExists => e.class == ErrClass::FileExists,
                ErrReq::DirExists => e.class == ErrClass::DirExists,
            };
            if good {
                Ok(())
            } else {
                Err(format!("expected error class {:?} but got {}", req, out.render()))
            }
        }
    }
}

/// every item's parent (if it is itself an item) appears earlier; no item twice
pub fn walk_order_ok(items: &[String]) -> Result<(), String> {
    let mut seen = BTreeSet::new();
    let all: BTreeSet<&String> = items.iter().collect();
    for it in items {
        if !seen.insert(it.clone()) {
            return Err(format!("walk yielded '{}' twice", it));
        }
        let par = parent_of(it);
        if all.contains(&par) && !seen.contains(&par) {
            return Err(format!("walk yielded '{}' before its directory '{}'", it, par));
        }
    }
    Ok(())
}
