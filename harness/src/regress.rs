//! Strict replay tier: committed inputs under /verif/regress are re-executed at the start of
//! every check that lists them; known-finding repros are confirmed here too.

use crate::engine::{verif_dir, CaseResult};
use crate::findings;
use serde_json::Value;

pub struct RegressOutcome {
    pub replayed: usize,
    pub known_confirmed: usize,
    /// (path, message) of the first unexpected failure
    pub violation: Option<(String, String)>,
}

pub fn run_for(prop: &str, replay: &dyn Fn(&Value) -> CaseResult) -> RegressOutcome {
    if std::env::var("VERIF_SKIP_REGRESS").is_ok() {
        // sensitivity experiments only: measure the generated search without the replay tier
        return RegressOutcome { replayed: 0, known_confirmed: 0, violation: None };
    }
    let dir = verif_dir().join("regress");
    let mut files: Vec<std::path::PathBuf> = match std::fs::read_dir(&dir) {
        Ok(rd) => rd.filter_map(|e| e.ok().map(|e| e.path())).filter(|p| p.extension().map(|x| x == "json").unwrap_or(false)).collect(),
        Err(_) => vec![],
    };
    files.sort();
    let open = findings::open_for(prop);
    let mut out = RegressOutcome { replayed: 0, known_confirmed: 0, violation: None };
    for f in files {
        let text = match std::fs::read_to_string(&f) {
            Ok(t) => t,
            Err(_) => continue,
        };
        let v: Value = match serde_json::from_str(&text) {
            Ok(v) => v,
            Err(e) => {
                eprintln!("regress file {} is not JSON: {}", f.display(), e);
                continue;
            }
        };
        let applies = v
            .get("properties")
            .and_then(|p| p.as_array())
            .map(|a| a.iter().any(|x| x.as_str() == Some(prop)))
            .unwrap_or(false);
        if !applies {
            continue;
        }
        out.replayed += 1;
        let finding_id = v.get("finding").and_then(|x| x.as_str());
        let r = crate::util::guarded(|| replay(&v));
        let r = match r {
            Ok(r) => r,
            Err(m) => Err(crate::engine::Failure { message: format!("replay panicked: {}", m), replay: v.clone() }),
        };
        match (r, finding_id) {
            (Ok(()), Some(id)) => {
                if open.iter().any(|k| k.id == id) {
                    println!("NOTE property={} known finding {} no longer reproduces on this tree ({})", prop, id, f.display());
                }
            }
            (Ok(()), None) => {}
            (Err(fail), Some(id)) if open.iter().any(|k| k.id == id) => {
                let k = open.iter().find(|k| k.id == id).unwrap();
                out.known_confirmed += 1;
                println!("KNOWN-FINDING: property={} {} {}", prop, k.id, k.summary);
                let _ = fail;
            }
            (Err(fail), _) => {
                if out.violation.is_none() {
                    out.violation = Some((f.display().to_string(), fail.message));
                }
            }
        }
    }
    out
}
