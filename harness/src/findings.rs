//! Known findings: genuine defects recorded rather than repaired. The committed file
//! /verif/known_findings.json is read-only at run time. An *open* finding names a trigger
//! (a predicate over stack shape, op and model state) that is excluded by construction from the
//! search, and a minimal repro that is replayed strictly in a confirm pass.

use crate::config::Cfg;
use crate::engine::verif_dir;
use crate::model::*;
use serde_json::Value;

#[derive(Clone, Debug)]
pub struct Finding {
    pub id: String,
    pub properties: Vec<String>,
    pub trigger: String,
    pub status: String,
    pub summary: String,
    pub repro: Value,
}

pub fn load() -> Vec<Finding> {
    let path = verif_dir().join("known_findings.json");
    let text = match std::fs::read_to_string(&path) {
        Ok(t) => t,
        Err(_) => return vec![],
    };
    let v: Value = match serde_json::from_str(&text) {
        Ok(v) => v,
        Err(e) => {
            eprintln!("known_findings.json is not valid JSON: {}", e);
            return vec![];
        }
    };
    let mut out = vec![];
    for f in v.get("findings").and_then(|x| x.as_array()).cloned().unwrap_or_default() {
        let s = |k: &str| f.get(k).and_then(|x| x.as_str()).unwrap_or("").to_string();
        out.push(Finding {
            id: s("id"),
            properties: f
                .get("properties")
                .and_then(|x| x.as_array())
                .map(|a| a.iter().filter_map(|x| x.as_str().map(|s| s.to_string())).collect())
                .unwrap_or_default(),
            trigger: s("trigger"),
            status: s("status"),
            summary: s("summary"),
            repro: f.get("repro").cloned().unwrap_or(Value::Null),
        });
    }
    out
}

/// Open findings that apply to `prop`.
pub fn open_for(prop: &str) -> Vec<Finding> {
    load().into_iter().filter(|f| f.status == "open" && f.properties.iter().any(|p| p == prop)).collect()
}

/// Trigger predicates for the history engine. Unknown trigger names never match (so a
/// finding whose trigger is not implemented suppresses nothing).
pub fn hist_trigger_matches(trigger: &str, cfg: &Cfg, t: &Tree, op: &Op, ex: &crate::hist::ExCtx) -> bool {
    match trigger {
        // OverlayFS::remove_file on an *empty directory that exists only in a lower layer*
        // succeeds (pinned by the repository's own test
        // impls::overlay::tests::read_dir_removed_entries). A directory that (also) lives in the
        // upper layer is refused correctly by the upper layer itself and stays in the domain.
        "overlay:remove_file:target-is-empty-directory" => {
            cfg.contains_overlay()
                && matches!(op, Op::RemoveFile(p) if t.is_dir(p) && !t.has_children(p) && !p.is_empty()
                    && (ex.lower_only.contains(p) || cfg.has_nested_overlay()))
        }
        _ => false,
    }
}

/// trigger names implemented by hist_trigger_matches
pub const HIST_TRIGGERS: [&str; 1] = ["overlay:remove_file:target-is-empty-directory"];

pub fn hist_excluder(prop: &str) -> Box<crate::hist::Excluder> {
    let listed: Vec<String> = open_for(prop).into_iter().map(|f| f.trigger).collect();
    let open: Vec<&'static str> = HIST_TRIGGERS.iter().copied().filter(|t| listed.iter().any(|l| l == t)).collect();
    Box::new(move |cfg, t, op, ex| {
        for trig in &open {
            if hist_trigger_matches(trig, cfg, t, op, ex) {
                return Some(*trig);
            }
        }
        None
    })
}
