#!/bin/bash
# Coverage-guided campaign (cargo-fuzz / libFuzzer) for one target with a fixed number of runs.
#   ./fuzz.sh <fuzz_join|fuzz_ops|fuzz_handles> <runs> [max_len]
# exit 0 = no crash, 1 = VIOLATION (artifact copied to replays/), 2 = infrastructure
set -u
TARGET="$1"; RUNS="$2"; MAXLEN="${3:-512}"
HERE="$(cd "$(dirname "$0")" && pwd)"
export CARGO_NET_OFFLINE=true
export VERIF_DIR="${VERIF_DIR:-$HERE}"
SEED=$(( ${VERIF_SEED:-0} + 1 ))
case "$TARGET" in fuzz_join) PROP=C06;; fuzz_handles) PROP=C14;; *) PROP=C01;; esac
WORK=$(mktemp -d "${TMPDIR:-/dev/shm}/vvfuzz.XXXXXX") || exit 2
trap 'rm -rf "$WORK"' EXIT
mkdir -p "$WORK/corpus" "$WORK/artifacts" "$VERIF_DIR/replays"
cp "$HERE/harness/fuzz/seeds/$TARGET"/* "$WORK/corpus/" 2>/dev/null
cd "$HERE/harness/fuzz" || exit 2
# vfs is safe Rust: no sanitizer (ASan + LeakSanitizer made iterations ~100x slower); the semantic oracle is inside the target
# rustix 0.37 (pulled in by async-std) does not compile with its linux_raw backend on this nightly
export RUSTFLAGS="--cfg rustix_use_libc"
if ! cargo +nightly fuzz build -s none "$TARGET" >"$WORK/build.log" 2>&1; then echo "INFRA fuzz build failed"; grep -E "^error" -A8 "$WORK/build.log" | head -30; exit 2; fi
cargo +nightly fuzz run -s none "$TARGET" "$WORK/corpus" -- -runs="$RUNS" -seed="$SEED" -len_control=0 -max_len="$MAXLEN" -artifact_prefix="$WORK/artifacts/" -print_final_stats=1 >"$WORK/run.log" 2>&1
CODE=$?
EXECS=$(grep -E "stat::number_of_executed_units" "$WORK/run.log" | awk '{print $2}')
COV=$(grep -E "cov: " "$WORK/run.log" | tail -1 | sed -E 's/.*cov: ([0-9]+).*/\1/')
CORP=$(ls "$WORK/corpus" | wc -l)
echo "FUZZ target=$TARGET runs_requested=$RUNS executed=${EXECS:-?} coverage_edges=${COV:-?} corpus=$CORP seed=$SEED exit=$CODE"
ART=$(ls "$WORK/artifacts" 2>/dev/null | head -1)
# merge fuzz statistics into the evidence file of the property
python3 - "$VERIF_DIR/evidence/$PROP.json" "$TARGET" "${EXECS:-0}" "${COV:-0}" "$CORP" "$RUNS" <<'PY'
import json,sys
p,t,e,c,corp,runs=sys.argv[1:]
try:
    ev=json.load(open(p))
    ev['coverage'].setdefault('fuzz_campaigns',[]).append({"target":t,"engine":"cargo-fuzz/libFuzzer","runs_requested":int(runs),"executed":int(e or 0),"coverage_edges":int(c or 0),"final_corpus":int(corp)})
    ev['coverage']['evaluations']=int(ev['coverage']['evaluations'])+int(e or 0)
    json.dump(ev,open(p,'w'),indent=1)
except Exception as ex:
    print("note: evidence not updated:",ex)
PY
if [ -n "$ART" ]; then
  H=$(sha1sum "$WORK/artifacts/$ART" | cut -c1-16)
  DEST="$VERIF_DIR/replays/$TARGET-$H.bin"
  cp "$WORK/artifacts/$ART" "$DEST"
  grep -E "VIOLATION|panicked" "$WORK/run.log" | head -5
  echo "VIOLATION property=$PROP replay=$DEST"
  exit 1
fi
if [ "$CODE" != "0" ]; then echo "INFRA fuzzer exited with $CODE without an artifact"; tail -5 "$WORK/run.log"; exit 2; fi
exit 0
