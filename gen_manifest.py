#!/usr/bin/env python3
"""Generates MANIFEST.json from the table below (kept next to the checks so both stay in sync)."""
import json, subprocess
hook_commits = subprocess.run(["git","-C","/repo","log","--format=%h %s","--grep=verif-hooks"],capture_output=True,text=True).stdout.strip().splitlines()
CHECKS = {
 "C01": ("exploration", "5 C01", "model-based stateful PBT (proptest): generated histories (incl. timestamp setters, 40..120-call histories, wide and deep name pools) x backend stacks (incl. overlays over the embedded fixture) vs reference tree model, full snapshot after every step; libFuzzer target fuzz_ops in thorough",
         "Held-on-everything-explored: each generated history is interpreted on the real stack and on an abstract tree; outcome classes and the complete observable tree are compared after every call. Right level because the property quantifies over unbounded histories/stackings; exploration with shrinking finds short counterexamples (it found 6 genuine defects, now fixed).",
         "trusts the reference model (pinned by the repository's own scenarios), Linux tmpfs/ext4; failed composites re-synchronise"),
 "C03": ("exploration", "5 C03", "stateful PBT with a model-free history invariant (untyped call profile)",
         "After every generated call (any call on any path, right or wrong type) the whole universe is probed: root is a directory, every existing path has a directory parent and is reachable by listings. No model is involved, so a model error cannot hide an orphan.",
         "root removal excluded as the property states; universe bounded by name pool x depth<=4"),
 "C05": ("exploration", "5 C05", "stateful PBT with metamorphic observer relations (no model)",
         "All observers are cross-checked against each other on every universe path in every reached state.",
         "quiescent states only"),
 "C08": ("exploration", "5 C08", "stateful PBT with recording wrappers around every overlay layer + deep lower-layer snapshots; directed battery on large lower-only files; sessions outliving a removal followed by every observer",
         "Every trait call that reaches any layer is recorded; lower layers are additionally snapshotted (bytes, types, created/modified) before and after each op.",
         "atime excluded; wrappers see trait-level calls"),
 "C09": ("exploration", "5 C09", "model-based stateful PBT: union-of-layers reference model (incl. an embedded read-only lowest layer), second overlay instance over the same layers as a twin view",
         "Initial view and every later step compared with the documented union model for generated layer contents.",
         "pre-populated layers are type-consistent, except for a directory above a same-named file of a deeper layer (first holder decides the type)"),
 "C10": ("exploration", "5 C10", "phase-directed stateful PBT (remove lower entry / unrelated ops / re-create) vs model + listing scan for marker names + second overlay instance over the same layers (built before the history and afresh after every step)",
         "Tombstone behaviour is checked by the full snapshot against the model after every step across remove/re-create cycles with type changes.",
         "reserved names never generated"),
 "C12": ("exploration", "5 C12", "stateful PBT with an error monitor on every Err of every generated call",
         "Each error's path/kind/Display is checked against the caller's namespace; altroot prefixes use distinctive names so leaks are recognisable.",
         "handle io::Errors carry no path and are not judged"),
}
NOT_APPLICABLE = {
 "C02": "check not built yet (in progress)", "C04": "check not built yet (in progress)", "C06": "check not built yet (in progress)",
 "C07": "check not built yet (in progress)", "C11": "check not built yet (in progress)", "C13": "check not built yet (in progress)",
 "C14": "check not built yet (in progress)", "C15": "check not built yet (in progress)", "C16": "check not built yet (in progress)",
 "C17": "check not built yet (in progress)", "C18": "check not built yet (in progress)", "C19": "check not built yet (in progress)",
 "C20": "check not built yet (in progress)",
}
import importlib.util, os
extra = os.path.join(os.path.dirname(__file__), "manifest_extra.py")
if os.path.exists(extra):
    spec = importlib.util.spec_from_file_location("manifest_extra", extra); m = importlib.util.module_from_spec(spec); spec.loader.exec_module(m)
    CHECKS.update(m.CHECKS)
    for k in m.CHECKS: NOT_APPLICABLE.pop(k, None)
    NOT_APPLICABLE.update(getattr(m, "NOT_APPLICABLE", {}))
FUZZ = {"C01": " && ./fuzz.sh fuzz_ops 12000 1024", "C06": " && ./fuzz.sh fuzz_join 3000000 256", "C14": " && ./fuzz.sh fuzz_handles 250000 256"}
checks = []
for pid in sorted(CHECKS):
    level, ref, tech, text, note = CHECKS[pid]
    checks.append({
        "property_id": pid,
        "quick_cmd": f"./run {pid} quick",
        "thorough_cmd": f"./run {pid} thorough" + FUZZ.get(pid, ""),
        "evidence_file": f"/verif/evidence/{pid}.json",
        "replay_cmd_template": "./run replay {path}",
        "engine": "vv",
        "level_claimed": {"category": level, "text": text, "design_ref": f"DESIGN.md section {ref}"},
        "level_note": note,
        "technique": tech,
    })
manifest = {
    "version": 1,
    "setup_cmd": "cd /verif/harness && CARGO_NET_OFFLINE=true cargo build --release --offline",
    "hooks": {
        "guard": "cargo feature verif-hooks (vfs/verif-hooks)",
        "enable": "the harness crate depends on vfs = { path = \"/repo\", features = [\"verif-hooks\", \"async-vfs\", \"embedded-fs\"] }; every ./run rebuilds it from /repo's working tree",
        "baseline_off_cmd": "cd /repo && cargo test --workspace --no-fail-fast --offline",
        "source_commits": [l.split()[0] for l in hook_commits],
        "add_only": True,
    },
    "engines": [{"name": "vv", "path": "/verif/harness", "serves_properties": sorted(CHECKS), "kind_free_text": "Rust crate: proptest-driven model-based / differential / metamorphic checks with sharded deterministic runners, replay files and a committed regression tier"}],
    "checks": checks,
    "not_applicable": [{"property_id": k, "reason": v} for k, v in sorted(NOT_APPLICABLE.items())],
    "notes": "VERIF_SEED selects the PRNG seed (default 0). Exit 0 = held (KNOWN-FINDING lines possible), 1 = VIOLATION, 2 = infrastructure. known_findings.json lists open and fixed findings.",
}
json.dump(manifest, open(os.path.join(os.path.dirname(__file__), "MANIFEST.json"), "w"), indent=1)
print("wrote MANIFEST.json with", len(checks), "checks")
