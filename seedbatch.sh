#!/bin/bash
# usage: seedbatch.sh <tier> < list   (lines: <patchfile> <prop> [<prop>...])  -> one summary line per patch
TIER="${1:-quick}"
while read -r PATCH PROPS; do
  [ -z "$PATCH" ] && continue
  RES=$(VERIF_SKIP_REGRESS=${VERIF_SKIP_REGRESS-1} SEEDTEST_LINES=3 /verif/seedtest.sh "$PATCH" "$TIER" $PROPS 2>&1 | grep "^== " | sed 's/ :: .*replay=/ replay=/' | tr '\n' ';')
  echo "$PATCH => $RES"
done
