//! C06 in an unoptimised build: join on arguments with very many segments, on threads with the
//! default 2 MiB stack (what a test thread or a spawned worker has). Output protocol (stdout):
//!   CASE <kind> <segments> <base_depth>      before a case runs (the parent reads the last one if the
//!                                            process dies of a stack overflow)
//!   MISMATCH ... / PANIC ...                 exit 4 / 3
//!   DONE <cases> <joins>                     exit 0
use std::io::Write;
use vfs::{MemoryFS, VfsPath};

/// independent lexical resolver (iterative)
fn reference(base: &str, arg: &str) -> String {
    let mut comps: Vec<&str> = if arg.starts_with('/') { vec![] } else { base.split('/').filter(|c| !c.is_empty()).collect() };
    for c in arg.split('/') {
        match c {
            "" | "." => {}
            ".." => {
                comps.pop();
            }
            x => comps.push(x),
        }
    }
    let mut out = String::new();
    for c in comps {
        out.push('/');
        out.push_str(c);
    }
    out
}

fn argument(kind: &str, n: usize) -> String {
    let seg = |i: usize| -> &'static str {
        match kind {
            "names" => "ab",
            "dots" => ".",
            "dotdots" => "..",
            "empties" => "",
            "updown" => ["x", ".."][i % 2],
            "absolute" => "q",
            _ => ["n", ".", "..", "", "name.ext", "..", "z"][i % 7],
        }
    };
    let mut s = String::new();
    if kind == "absolute" {
        s.push('/');
    }
    for i in 0..n {
        if i > 0 {
            s.push('/');
        }
        s.push_str(seg(i));
    }
    // never a trailing slash (the one documented rejection)
    if s.len() > 1 && s.ends_with('/') {
        s.push('e');
    }
    s
}

fn one(kind: &str, n: usize, depth: usize) -> Result<u64, String> {
    println!("CASE {} {} {}", kind, n, depth);
    std::io::stdout().flush().ok();
    let kind = kind.to_string();
    let h = std::thread::spawn(move || -> Result<u64, String> {
        let root = VfsPath::new(MemoryFS::new());
        let mut base = root.clone();
        for i in 0..depth {
            base = base.join(format!("b{}", i)).map_err(|e| e.to_string())?;
        }
        let arg = argument(&kind, n);
        let got = base.join(&arg).map_err(|e| format!("join rejected an argument without trailing slash: {}", e))?;
        let want = reference(base.as_str(), &arg);
        if got.as_str() != want {
            return Err(format!("join gives a path of {} bytes, lexical resolution one of {} bytes", got.as_str().len(), want.len()));
        }
        // parent / filename of the result are consistent with the canonical form
        if !want.is_empty() {
            let cut = want.rfind('/').unwrap();
            if got.parent().as_str() != &want[..cut] || got.filename() != want[cut + 1..] {
                return Err("parent()/filename() of the result disagree with its canonical string".into());
            }
        }
        Ok(1)
    });
    match h.join() {
        Ok(Ok(j)) => Ok(j),
        Ok(Err(m)) => {
            println!("MISMATCH {}", m);
            std::process::exit(4)
        }
        Err(_) => {
            println!("PANIC join panicked");
            std::process::exit(3)
        }
    }
}

fn main() {
    let args: Vec<String> = std::env::args().skip(1).collect();
    if args.len() == 3 {
        let _ = one(&args[0], args[1].parse().unwrap_or(1), args[2].parse().unwrap_or(0));
        println!("DONE 1 1");
        return;
    }
    // VERIF_SEED varies the exact counts; the ladder of magnitudes is fixed
    let seed: u64 = std::env::var("VERIF_SEED").ok().and_then(|s| s.parse().ok()).unwrap_or(0);
    let thorough = std::env::var("VERIF_TIER").map(|t| t == "thorough").unwrap_or(false);
    let mut ladder: Vec<usize> = vec![1, 2, 17, 1_000, 10_000, 65_536, 200_000, 500_000, 1_000_000];
    if thorough {
        ladder.extend([2_000_000, 4_000_000]);
    }
    let (mut cases, mut joins) = (0u64, 0u64);
    let mut x = seed.wrapping_mul(0x9E37_79B9_7F4A_7C15) | 1;
    for kind in ["names", "dots", "dotdots", "empties", "updown", "absolute", "mixed"] {
        for n in &ladder {
            for depth in [0usize, 3] {
                x ^= x << 13;
                x ^= x >> 7;
                x ^= x << 17;
                let n = n + (x % 7) as usize;
                joins += one(kind, n, depth).unwrap_or(0);
                cases += 1;
            }
        }
    }
    println!("DONE {} {}", cases, joins);
}
